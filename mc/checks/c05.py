"""C05 - record framing (DESIGN §4 C05).  Small domains enumerated completely.

Attitude points 1..136 (record length 16384) and 1..floor((L-16)/120) for
L in {136, 256, 1000}, 1 and the maximum for every L up to 700 / 3000; channels 1..16; every
facility record 1-4 length 66..130 and {1000, 5000, 100000} (each alone, all four equal), all four
equal for every length up to 2600 / 20000 and around every power of two up to 2^17; map projection
0/1; file pointers 0..12; low-resolution trailer images 0..7.  Every record
holds distinct values, so a record decoded from its neighbour's bytes shows up
as a leaf mismatch against the reference model (whole tree compared).
"""
import io

import numpy as np

from mc import core, env, synth, treecheck

ID = "C05"
LEVEL = "exploration"

BASE = {"level": "1.5", "images": [["HH", None, 1, 1]]}
IGN = ("/metadata/attitude/attitude:time", "/metadata/attitude/rates:time")


def plan(tier):
    cases = []
    for n in range(1, 137):
        cases.append({"spec": {**BASE, "leader": {"n_att": n}}, "label": f"attitude points={n} (record 16384)"})
    for L in (136, 256, 1000):
        for n in range(1, (L - 16) // 120 + 1):
            cases.append({"spec": {**BASE, "leader": {"n_att": n, "att_len": L}}, "label": f"attitude points={n} record length {L}"})
        cases.append({"spec": {**BASE, "leader": {"n_att": (L - 16) // 120, "att_len": 16 + 120 * ((L - 16) // 120)}}, "label": f"attitude record exactly full ({(L - 16) // 120} points)"})
    for n in range(1, 17):
        cases.append({"spec": {**BASE, "leader": {"n_chan": n}}, "label": f"channels={n}"})
        cases.append({"spec": {**BASE, "level": "1.1", "leader": {"n_chan": n, "n_att": 2}}, "label": f"channels={n} level 1.1"})
    lens = list(range(66, 131)) + [1000, 5000, 100000]
    for flen in lens:
        for k in range(4):
            fl = [100, 101, 102, 103]
            fl[k] = flen
            cases.append({"spec": {**BASE, "leader": {"fac_len": fl}}, "label": f"facility record {k + 1} length {flen}"})
        cases.append({"spec": {**BASE, "leader": {"fac_len": [flen] * 4}}, "label": f"all facility records length {flen}"})
    # long records: every length up to a bound and the neighbourhood of every power of two (size thresholds,
    # block sizes); all four records alike, so that each one is followed by a record that must still decode
    hi = 2600 if tier == "quick" else 20000
    wide = set(range(131, hi + 1))
    for p in range(12, 18):
        wide.update(range(2**p - 70, 2**p + 71))
    for flen in sorted(wide):
        cases.append({"spec": {**BASE, "leader": {"fac_len": [flen] * 4}}, "label": f"all facility records length {flen}"})
    for flen in sorted(wide):
        if tier == "thorough" and flen <= 4200 or flen in (255, 256, 257, 511, 512, 513, 1023, 1024, 1025, 2047, 2048, 2049, 2100, 4095, 4096, 4097, 65535, 65536, 65537):
            for k in range(4):
                fl = [100, 101, 102, 103]
                fl[k] = flen
                cases.append({"spec": {**BASE, "leader": {"fac_len": fl}}, "label": f"facility record {k + 1} length {flen}"})
    for L in range(137, 700 if tier == "quick" else 3000):
        if L in (256, 1000):
            continue
        for n in sorted({1, (L - 16) // 120}):
            cases.append({"spec": {**BASE, "leader": {"n_att": n, "att_len": L}}, "label": f"attitude points={n} record length {L}"})
    # record START offsets around powers of two (windowed / head+tail readers): the first facility record is sized so that the
    # second one - and, separately, the fifth - begins at B-14 .. B+2 for B = 2^15 .. 2^18
    sp0 = treecheck.spec_from_case({"spec": {**BASE, "leader": {"fac_len": [66, 66, 66, 66]}}})
    files0, _ = synth.build(sp0)
    start1 = len(files0[synth.file_names(sp0)["led"]]) - 5000 - 4 * 66  # offset of facility record 1 in this layout
    for B in (2**15, 2**16, 2**17, 2**18):
        for d in range(-14, 3, 2) if tier == "quick" else range(-14, 3):
            l1 = B + d - start1
            if l1 >= 66:
                cases.append({"spec": {**BASE, "leader": {"fac_len": [l1, 100, 101, 102]}}, "label": f"facility record 2 starts at {B}{d:+d}"})
            l4 = B + d - start1 - 100 - 101 - 102
            if l4 >= 66:
                cases.append({"spec": {**BASE, "leader": {"fac_len": [100, 101, 102, l4]}}, "label": f"facility record 5 starts at {B}{d:+d}"})
    # leader / volume directory files with bytes behind their last record
    for which in ("led", "vol"):
        for pad in (1, 360, 512, 5000):
            cases.append({"spec": {**BASE, "pad_files": {which: [pad, 32]}}, "label": f"{which} file padded by {pad} blanks"})
            cases.append({"spec": {**BASE, "pad_files": {which: [pad, 0]}}, "label": f"{which} file padded by {pad} NUL bytes"})
    for n_mp in (0, 1):
        for level in ("1.1", "1.5", "3.1"):
            cases.append({"spec": {**BASE, "level": level, "leader": {"n_mp": n_mp}}, "label": f"map projection records={n_mp} level {level}"})
    for n in range(0, 13):
        cases.append({"spec": {**BASE, "vol": {"n_fp": n}}, "label": f"file pointers={n}"})
    # everything variable at once
    for n_att, n_chan, fl, n_mp, n_fp in ((1, 1, [66, 66, 66, 66], 0, 0), (136, 16, [130, 66, 1000, 67], 1, 12), (7, 9, [99, 100000, 66, 128], 1, 3)):
        cases.append({"spec": {**BASE, "leader": {"n_att": n_att, "n_chan": n_chan, "fac_len": fl, "n_mp": n_mp}, "vol": {"n_fp": n_fp}}, "label": f"combined att={n_att} chan={n_chan} fac={fl} mp={n_mp} fp={n_fp}"})
    return cases


def execute(case):
    spec = treecheck.spec_from_case(case)
    out = treecheck.check_spec(spec, ignore=IGN)
    fails = out["failures"]
    for f in fails:
        f["detail"] = f"{case['label']}: {f['detail']}"
        f["case"] = case
    return {"ok": not fails, "failures": fails, "outcome": "ok" if not fails else fails[0]["sig"].get("kind", "leaf-mismatch"), "nontrivial": True}


# --- trailer ---------------------------------------------------------------


def build_trailer(sizes):
    """sizes: [(pixels, lines, bytes per sample)] -> (file bytes, [image bytes], header overrides)"""
    head = synth.layout("trl.file_descriptor_head")
    ov = {**synth.preamble(1, 63, 192, 18, 18, 720), "number_of_low_resolution_images": len(sizes)}
    resolved = {}
    b = bytearray(b" " * 720)
    b[:496] = synth.encode_record(head, ov, salt=70, resolved=resolved)
    entry = synth.layout("trl.low_res_image_size")
    images = []
    for k, (px, ln, nb) in enumerate(sizes):
        body = bytes((k * 37 + i * 11 + 5) % 251 for i in range(px * ln * nb))
        images.append(body)
        b[496 + 26 * k : 496 + 26 * (k + 1)] = synth.encode_record(entry, {"record_length": len(body), "number_of_pixels": px, "number_of_lines": ln, "number_of_bytes_per_one_sample": nb}, salt=71 + k)
    tail = 496 + 26 * len(sizes)
    b[tail:720] = (b"~" * 300)[: 720 - tail]  # padding content must not matter
    return bytes(b) + b"".join(images), images, resolved


def execute_trailer(case):
    env.import_lib()
    from ceos_alos2.sar_trailer import read_sar_trailer

    sizes = [tuple(s) for s in case["sizes"]]
    data, images, resolved = build_trailer(sizes)
    fails = []
    try:
        header, got = read_sar_trailer(io.BytesIO(data))
    except Exception as e:
        return {"ok": False, "failures": [{"sig": {"kind": "trailer-raises", "exc": type(e).__name__}, "detail": f"trailer with sizes {sizes}: {type(e).__name__}: {e}", "case": case}], "outcome": "raises"}
    if len(got) != len(sizes):
        fails.append({"sig": {"kind": "trailer-count"}, "detail": f"{len(got)} images for {len(sizes)} entries"})
    for k, (img, body, (px, ln, nb)) in enumerate(zip(got, images, sizes)):
        arr = np.asarray(img)
        raw = arr.astype(arr.dtype.newbyteorder(">")).tobytes()
        if raw != body:
            fails.append({"sig": {"kind": "trailer-image-bytes"}, "detail": f"image {k} of sizes {sizes}: bytes differ from its own byte range"})
        if sorted(arr.shape) != sorted((px, ln)) or arr.dtype.itemsize != nb:
            fails.append({"sig": {"kind": "trailer-image-shape"}, "detail": f"image {k}: shape {arr.shape} itemsize {arr.dtype.itemsize}, declared {(px, ln, nb)}"})
    if int(header["number_of_low_resolution_images"]) != len(sizes):
        fails.append({"sig": {"kind": "trailer-header"}, "detail": "number_of_low_resolution_images differs"})
    for key in ("file_id", "facility_related_data_5.record_length", "software_release_and_revision_number"):
        cur = header
        for part in key.split("."):
            cur = cur[part]
        want = resolved[key].decode().strip()
        if str(cur).strip() != want and not (isinstance(cur, int) and cur == int(want)):
            fails.append({"sig": {"kind": "trailer-header"}, "detail": f"header field {key}: {cur!r} != {want!r}"})
    for f in fails:
        f["case"] = case
    return {"ok": not fails, "failures": fails, "outcome": "trailer-ok" if not fails else fails[0]["sig"]["kind"], "nontrivial": True}


def trailer_plan():
    cases = []
    shapes = [(3, 2, 1), (2, 5, 2), (1, 1, 4), (4, 4, 1), (6, 1, 2), (1, 7, 1), (2, 2, 4)]
    for n in range(0, 8):
        for rot in range(max(n, 1)):
            sizes = [shapes[(i + rot) % 7] for i in range(n)]
            cases.append({"fn": "execute_trailer", "sizes": sizes})
    return cases


def execute_optimized(case):
    """the same framing cases in an interpreter started with -O (assert statements are compiled away)"""
    import json
    import os
    import subprocess
    import sys

    e = {**os.environ, "PYTHONPATH": str(env.VERIF), "PYTHONOPTIMIZE": "1"}
    e.pop("XDG_CACHE_HOME", None)
    code = "import json,sys; from mc.checks import c05; cases=json.loads(sys.argv[1]); out=[c05.execute(c) for c in cases]; print('RESULT'+json.dumps({'optimize': sys.flags.optimize, 'out': [{'ok': o['ok'], 'failures': o['failures'][:2]} for o in out]}, default=repr))"
    r = subprocess.run([sys.executable, "-O", "-c", code, json.dumps(case["cases"])], capture_output=True, text=True, cwd=str(env.VERIF), env=e, timeout=900)
    line = next((l for l in r.stdout.splitlines() if l.startswith("RESULT")), None)
    if line is None:
        raise core.HarnessError(f"-O leg produced no result: {r.stderr[-600:]}")
    doc = json.loads(line[len("RESULT") :])
    if not doc["optimize"]:
        raise core.HarnessError("the -O leg did not run optimized")
    fails = []
    for c, o in zip(case["cases"], doc["out"]):
        for f in o["failures"]:
            f["detail"] = f"[python -O] {f['detail']}"
            f["sig"] = {**f["sig"], "optimize": 1}
            f["case"] = {"fn": "execute_optimized", "cases": [c]}
            fails.append(f)
    return {"ok": not fails, "failures": fails[:4], "outcome": "optimized-ok" if not fails else "optimized-mismatch", "nontrivial": True}


def run(res, tier, seed):
    res.rule = (
        "attitude points 1..136 and every count for record lengths 136/256/1000; channels 1..16 (2 levels); facility records 1-4"
        " each with every length 66..130 and 1000/5000/100000, alone and all equal, all equal for every length up to 2600 (quick) /" " 20000 (thorough) and 2^12..2^17 +-70; attitude record lengths 137..699 (quick) / ..2999 with 1 and the maximal number of points; map projection 0/1 x 3 levels;"
        " facility records 2 and 5 starting at 2^15..2^18 -14..+2; file pointers 0..12; leader / volume files padded behind their last record; 13 framing cases again under python -O; 3 combined extremes; trailer with 0..7 low-resolution images in every rotation of 7 distinct sizes"
        " (1/2/4 bytes per sample). Every case is a structurally distinct file compared on the whole tree / every trailer image."
    )
    res.assumptions = ["the orientation of trailer image shapes is not pinned by the property (compared as a multiset)"]
    core.run_cases(res, __name__, plan(tier))
    sample = [c for c in plan(tier) if c["label"] in ("attitude points=1 (record 16384)", "attitude points=136 (record 16384)", "channels=1", "channels=16", "all facility records length 66", "all facility records length 1000", "file pointers=0", "file pointers=12", "map projection records=0 level 1.5", "map projection records=1 level 1.5") or c["label"].startswith("combined")]
    for idx, case, out in core.pool_map(__name__, "execute_optimized", [{"cases": sample[i : i + 4]} for i in range(0, len(sample), 4)], chunksize=1):
        res.record({"fn": "execute_optimized", "n": len(case["cases"])}, out, order=2 * 10**6 + idx)
    for idx, case, out in core.pool_map(__name__, "execute_trailer", trailer_plan(), chunksize=4):
        res.record(case, out, order=10**6 + idx)
