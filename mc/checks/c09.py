"""C09 - a torn / concurrent cache write never poisons later opens (DESIGN §4 C09).

Crash-prefix enumeration (E7): the observable on-disk states of an in-place
``write_text`` are the byte prefixes 0..len of the document.  For each image of
a level 1.1 and a level 1.5 product and each location (user cache dir /
adjacent) every prefix is planted and the recovery sequence is run on the real
code:  1. open_alos2(defaults) -> no exception, tree == uncached reference;
2. open_alos2(create_cache=True) -> succeeds, equal, user-cache file complete;
3. open_alos2(use_cache=True) -> equal, image line records not re-read.
quick: all prefixes through sar_image.open_image, open_alos2 at structural
JSON tokens +-1 and every 16th byte; thorough: every prefix through open_alos2.
Pairs (torn local + complete adjacent, complete local + torn adjacent) too.
"""
import json

import fsspec

from mc import cachelab, codecsnap, core, env, harness, synth, treesnap, vfs
from mc.checks import c07

ID = "C09"
LEVEL = "fault_enumeration"

_state = {}


def setup(level):
    """per worker: product on mcfs, complete documents, reference snapshot"""
    if _state.get("level") == level:
        return _state
    if _state.get("prod") is not None:
        _state["prod"].close()
    env.import_lib()
    env.wipe_cache()
    spec, files = c07.product_files(level)
    prod = harness.Product(files, "mcfs")
    names = synth.file_names(spec)["img"]
    ref = treesnap.snapshot(prod.open(use_cache=False, records_per_chunk=2))
    prod.open(create_cache=True, use_cache=False, records_per_chunk=2)
    cdir = cachelab.user_cache_dir(prod.mapper_root())
    docs = {n: (cdir / f"{n}.index").read_bytes() for n in names}
    env.wipe_cache()
    _state.update({"level": level, "spec": spec, "files": files, "prod": prod, "names": names, "ref": ref, "docs": docs, "cdir": cdir})
    return _state


def plant(st, loc, name, data):
    """data None = absent"""
    if loc == "local":
        p = st["cdir"] / f"{name}.index"
        if data is None:
            if p.exists():
                p.unlink()
        else:
            st["cdir"].mkdir(parents=True, exist_ok=True)
            p.write_bytes(data)
    else:
        if data is None:
            st["prod"].remove(f"{name}.index")
        else:
            st["prod"].put(f"{name}.index", data)


def clear(st):
    for n in st["names"]:
        plant(st, "local", n, None)
        plant(st, "adjacent", n, None)


def img_reads(name):
    return [e for e in vfs.LOG if e[0] == "read" and e[1].endswith("/" + name)]


class fsize_limit:
    """the volume is as full as it was when the cache write stopped: no file can grow beyond n bytes (RLIMIT_FSIZE of this worker
    process; Python ignores SIGXFSZ, so such a write fails with EFBIG - an OSError like ENOSPC / EDQUOT)"""

    def __init__(self, n):
        self.n = n

    def __enter__(self):
        import resource

        self.old = resource.getrlimit(resource.RLIMIT_FSIZE)
        resource.setrlimit(resource.RLIMIT_FSIZE, (self.n, self.old[1]))

    def __exit__(self, *exc):
        import resource

        resource.setrlimit(resource.RLIMIT_FSIZE, self.old)


class no_limit:
    def __enter__(self):
        pass

    def __exit__(self, *exc):
        pass


def execute(case):
    st = setup(case["level"])
    prod, ref, names = st["prod"], st["ref"], st["names"]
    name = names[case["image"]]
    doc = st["docs"][name]
    loc, other = case["loc"], ("adjacent" if case["loc"] == "local" else "local")
    fails, outcomes = [], {}

    def bad(kind, cut, detail, **extra):
        sig = {"kind": kind, "loc": loc, **extra}
        if core.jkey(sig) not in {core.jkey(f["sig"]) for f in fails}:
            fails.append({"sig": sig, "detail": f"{case['level']} {name} {loc} prefix {cut}/{len(doc)}{' + complete ' + other if case.get('pair') else ''}{' (volume still full: files cannot grow beyond the prefix length)' if case.get('disk_full') else ''}: {detail}", "case": {**case, "cuts": [cut], "full_steps": True}})

    for i, cut in enumerate(case["cuts"]):
        clear(st)
        plant(st, loc, name, doc[:cut])
        if case.get("pair") == "torn":
            plant(st, other, name, doc[: max(cut // 2, 1)])  # both locations torn
        elif case.get("pair"):
            plant(st, other, name, doc)
        # step 1: default open
        try:
            vfs.reset_log()
            with fsize_limit(cut) if case.get("disk_full") else no_limit():
                t = prod.open(records_per_chunk=2)
            if case.get("pair") is True and cut < len(doc) and len(img_reads(name)) > 1:
                # a torn index in one location, a complete one in the other: the complete one is a usable cache, the line
                # records are not re-read at open (at most the descriptor is looked at)
                bad("line-records-reread-despite-complete-index", cut, f"{len(img_reads(name))} reads of the image at open time although the {other} index is complete")
            d = treesnap.diff(ref, treesnap.snapshot(t))
            out = "ok" if not d else "differs"
            if d:
                bad("tree-differs-after-torn-cache", cut, treesnap.short(d, 2))
        except Exception as e:
            out = f"raises:{type(e).__name__}"
            bad("open-raises-on-torn-cache", cut, f"open_alos2 raises {type(e).__name__}: {str(e)[:100]}", exc=type(e).__name__)
        outcomes[out] = outcomes.get(out, 0) + 1
        if not (case.get("full_steps") or i % case.get("steps_every", 8) == 0):
            continue
        # step 2: repair
        try:
            t = prod.open(create_cache=True, records_per_chunk=2)
            d = treesnap.diff(ref, treesnap.snapshot(t))
            if d:
                bad("tree-differs-after-repair", cut, treesnap.short(d, 2))
            if case.get("pair") in (None, False, "torn") and cut < len(doc):
                p = st["cdir"] / f"{name}.index"
                try:
                    json.loads(p.read_text())
                    complete = True
                except Exception:
                    complete = False
                if not complete:
                    bad("cache-not-repaired", cut, f"after create_cache=True the user-cache index is {'missing' if not p.exists() else 'still incomplete'}")
        except Exception as e:
            bad("repair-raises", cut, f"open_alos2(create_cache=True) raises {type(e).__name__}: {str(e)[:100]}", exc=type(e).__name__)
        # step 3: cached open must not re-read the line records
        try:
            vfs.reset_log()
            t = prod.open(use_cache=True, records_per_chunk=2)
            reads = img_reads(name)
            d = treesnap.diff(ref, treesnap.snapshot(t))
            if d:
                bad("tree-differs-after-recovery", cut, treesnap.short(d, 2))
            if reads and not (case.get("pair") and loc == "local" and cut < len(doc) and False):
                bad("line-records-reread-after-repair", cut, f"{len(reads)} reads of the image at open time although a complete cache exists")
        except Exception as e:
            bad("cached-open-raises-after-repair", cut, f"{type(e).__name__}: {str(e)[:100]}", exc=type(e).__name__)
    clear(st)
    return {"ok": not fails, "failures": fails, "outcome": "+".join(sorted(outcomes)), "nontrivial": any(c < len(doc) for c in case["cuts"]), "n": len(case["cuts"])}


def execute_crash(case):
    """REAL crash points of the real write path: a child process (fork) opens the product with create_cache=True while no file may
    grow beyond k bytes and SIGXFSZ has its default action - the kernel kills the child at byte k of whichever cache file it is
    writing (no handler, no ``finally``, nothing flushed or cleaned up).  Whatever that leaves in the user cache directory (torn
    documents, temporary files, lock files) is the post-crash state the parent then opens, repairs and opens again."""
    import os
    import resource
    import signal

    st = setup(case["level"])
    prod, ref, names, cdir = st["prod"], st["ref"], st["names"], st["cdir"]
    fails, outcomes = [], {}

    def bad(kind, k, detail, **extra):
        sig = {"kind": kind, "crash": True, **extra}
        if core.jkey(sig) not in {core.jkey(f["sig"]) for f in fails}:
            fails.append({"sig": sig, "detail": f"{case['level']} writer killed when a cache file reaches {k} bytes: {detail}", "case": {**case, "limits": [k]}})

    for k in case["limits"]:
        clear(st)
        env.wipe_cache()
        pid = os.fork()
        if pid == 0:
            try:
                signal.signal(signal.SIGXFSZ, signal.SIG_DFL)
                resource.setrlimit(resource.RLIMIT_FSIZE, (k, resource.getrlimit(resource.RLIMIT_FSIZE)[1]))
                prod.open(create_cache=True, records_per_chunk=2)
                os._exit(0)
            except BaseException:
                os._exit(3)
        _, status = os.waitpid(pid, 0)
        killed = os.WIFSIGNALED(status) and os.WTERMSIG(status) == signal.SIGXFSZ
        left = sorted((p.name, p.stat().st_size) for p in cdir.iterdir()) if cdir.exists() else []
        out = "killed" if killed else f"exit:{os.WEXITSTATUS(status) if os.WIFEXITED(status) else status}"
        if not killed and not (os.WIFEXITED(status) and os.WEXITSTATUS(status) == 0):
            raise core.HarnessError(f"crash child ended with status {status} at limit {k}")
        outcomes[out] = outcomes.get(out, 0) + 1
        # 1: default open of the post-crash state
        try:
            d = treesnap.diff(ref, treesnap.snapshot(prod.open(records_per_chunk=2)))
            if d:
                bad("tree-differs-after-crash", k, f"{left}: {treesnap.short(d, 2)}")
        except Exception as e:
            bad("open-raises-after-crash", k, f"{left}: open_alos2 raises {type(e).__name__}: {str(e)[:100]}", exc=type(e).__name__)
            continue
        # 2: repair
        try:
            d = treesnap.diff(ref, treesnap.snapshot(prod.open(create_cache=True, records_per_chunk=2)))
            if d:
                bad("tree-differs-after-repair", k, treesnap.short(d, 2))
            for n in names:
                p = cdir / f"{n}.index"
                try:
                    json.loads(p.read_text())
                except Exception:
                    bad("cache-not-repaired", k, f"after the crash left {left}, create_cache=True leaves the index of {n} {'missing' if not p.exists() else 'incomplete'}")
        except Exception as e:
            bad("repair-raises", k, f"{left}: open_alos2(create_cache=True) raises {type(e).__name__}: {str(e)[:100]}", exc=type(e).__name__)
            continue
        # 3: the repaired cache is used
        try:
            vfs.reset_log()
            t = prod.open(use_cache=True, records_per_chunk=2)
            reads = [r for n in names for r in img_reads(n)]
            d = treesnap.diff(ref, treesnap.snapshot(t))
            if d:
                bad("tree-differs-after-recovery", k, treesnap.short(d, 2))
            if reads:
                bad("line-records-reread-after-repair", k, f"{len(reads)} reads of the images at open time although create_cache=True ran after the crash (left {left})")
        except Exception as e:
            bad("cached-open-raises-after-repair", k, f"{type(e).__name__}: {str(e)[:100]}", exc=type(e).__name__)
    clear(st)
    env.wipe_cache()
    return {"ok": not fails, "failures": fails, "outcome": "+".join(sorted(outcomes)), "nontrivial": outcomes.get("killed", 0) > 0, "n": len(case["limits"]), "killed": outcomes.get("killed", 0)}


def execute_seam(case):
    """every prefix through sar_image.open_image (2 ms each)"""
    from ceos_alos2 import sar_image

    st = setup(case["level"])
    prod, names = st["prod"], st["names"]
    name = names[case["image"]]
    doc = st["docs"][name]
    mapper = fsspec.get_mapper(prod.url, **prod.storage_options)
    clear(st)
    want = codecsnap.group_canon(sar_image.open_image(mapper, name, use_cache=False, records_per_chunk=2))
    fails, outcomes = [], {}
    for cut in case["cuts"]:
        plant(st, case["loc"], name, doc[:cut])
        try:
            g = sar_image.open_image(mapper, name, use_cache=True, records_per_chunk=2)
            d = codecsnap.diff(want, codecsnap.group_canon(g))
            out = "ok" if not d else "differs"
            detail = "; ".join(d[:2])
        except Exception as e:
            out, detail = f"raises:{type(e).__name__}", f"open_image raises {type(e).__name__}: {str(e)[:100]}"
        outcomes[out] = outcomes.get(out, 0) + 1
        if out != "ok":
            sig = {"kind": "seam-" + out.split(":")[0], "loc": case["loc"], "exc": out.split(":")[-1]}
            if core.jkey(sig) not in {core.jkey(f["sig"]) for f in fails}:
                fails.append({"sig": sig, "detail": f"{case['level']} {name} {case['loc']} prefix {cut}/{len(doc)}: {detail}", "case": {**case, "cuts": [cut]}})
    clear(st)
    return {"ok": not fails, "failures": fails, "outcome": "+".join(sorted(outcomes)), "nontrivial": True, "n": len(case["cuts"])}


_big = {}


def big_setup(lines):
    """a product whose index is > 1 MiB (size-dependent cache paths); whatever file(s) create_cache leaves"""
    if _big.get("lines") == lines:
        return _big
    env.import_lib()
    env.wipe_cache()
    spec = synth.product_spec("1.5", images=[synth.image_spec("HH", None, lines, 1, "IU2")])
    files, _ = synth.build(spec)
    prod = harness.Product(files, "mcfs")
    ref = treesnap.snapshot(prod.open(use_cache=False), with_bytes=False)
    prod.open(create_cache=True, use_cache=False)
    cdir = cachelab.user_cache_dir(prod.mapper_root())
    written = {p.name: p.read_bytes() for p in sorted(cdir.iterdir())} if cdir.exists() else {}
    _big.update({"lines": lines, "prod": prod, "ref": ref, "cdir": cdir, "written": written, "name": synth.file_names(spec)["img"][0]})
    return _big


def execute_large(case):
    st = big_setup(case["lines"])
    prod, ref, cdir = st["prod"], st["ref"], st["cdir"]
    fails, n = [], 0
    if not st["written"]:
        return {"ok": False, "failures": [{"sig": {"kind": "no-cache-written"}, "detail": "create_cache=True left no file in the user cache dir", "case": case}], "outcome": "no-cache"}
    fname, full = max(st["written"].items(), key=lambda kv: len(kv[1]))
    cuts = [c for c in case["cuts"] if c <= len(full)] if case["cuts"] != "info" else []
    if case["cuts"] == "info":
        return {"ok": True, "outcome": "info", "nontrivial": False, "size": len(full), "n": 0, "file": fname}

    def bad(kind, cut, detail, **extra):
        sig = {"kind": kind, "large": True, **extra}
        if core.jkey(sig) not in {core.jkey(f["sig"]) for f in fails}:
            fails.append({"sig": sig, "detail": f"{case['lines']}-line image, {case.get('loc', 'local')} cache file {fname} cut at {cut}/{len(full)}: {detail}", "case": {**case, "cuts": [cut]}})

    loc = case.get("loc", "local")
    for i, cut in enumerate(cuts):
        if loc == "local":
            for other, data in st["written"].items():
                (cdir / other).write_bytes(data)
            (cdir / fname).write_bytes(full[:cut])
        else:  # the torn document lies next to the image, nothing in the user cache dir
            env.wipe_cache()
            prod.put(f"{st['name']}.index", full[:cut])
        n += 1
        try:
            t = prod.open()
            d = treesnap.diff(ref, treesnap.snapshot(t, with_bytes=False))
            if d:
                bad("tree-differs-after-torn-cache", cut, treesnap.short(d, 2))
        except Exception as e:
            bad("open-raises-on-torn-cache", cut, f"open_alos2 raises {type(e).__name__}: {str(e)[:100]}", exc=type(e).__name__)
            continue
        if i % case.get("steps_every", 8):
            continue
        try:
            prod.open(create_cache=True)
            vfs.reset_log()
            t = prod.open(use_cache=True)
            reads = img_reads(st["name"])
            d = treesnap.diff(ref, treesnap.snapshot(t, with_bytes=False))
            if d:
                bad("tree-differs-after-recovery", cut, treesnap.short(d, 2))
            if reads and cut < len(full):
                bad("cache-not-repaired", cut, f"after create_cache=True a cached open still reads the image ({len(reads)} reads)")
        except Exception as e:
            bad("repair-raises", cut, f"{type(e).__name__}: {str(e)[:100]}", exc=type(e).__name__)
    if loc != "local":
        prod.remove(f"{st['name']}.index")
    return {"ok": not fails, "failures": fails, "outcome": "large-ok" if not fails else fails[0]["sig"]["kind"], "nontrivial": True, "n": n}


def doc_lengths():
    """lengths of the complete documents (computed once in a helper process)"""
    out = {}
    for level in ("1.1", "1.5"):
        st = setup(level)
        out[level] = [len(st["docs"][n]) for n in st["names"]]
        out[level + ":tokens"] = [sorted({p + d for p, ch in enumerate(st["docs"][n].decode()) if ch in "{}[]:" for d in (-1, 0, 1)}) for n in st["names"]]
    return out


def chunks(seq, size):
    seq = list(seq)
    return [seq[i : i + size] for i in range(0, len(seq), size)]


def run(res, tier, seed):
    res.rule = (
        "for each image of a level 1.1 and a level 1.5 product (documents of ~10 kB / ~7 kB) and each location {user cache, adjacent}:"
        " every byte prefix 0..len through sar_image.open_image; through open_alos2 every prefix (thorough) or every 3rd structural"
        " JSON token +-1, every 32nd byte and the first/last 24 (quick; second image sparser), with the repair + cached-open steps on every 8th (quick) / 4th"
        " (thorough); pairs torn+complete and torn+torn (both locations) at token positions; REAL crash points: a forked child running create_cache=True is killed by the kernel (RLIMIT_FSIZE + default SIGXFSZ) when a cache file reaches k bytes, for k at every 40th|6th token, every 1024|64 bytes and the document ends, then default open / repair / cached open of whatever was left; default opens while no file can grow beyond the prefix length (the volume is still full; RLIMIT_FSIZE) at every 25th|5th token; plus an 18000-line image whose index is > 5 MiB, cut at every power of two 2^12..2^22,"
        " every MiB multiple and 5 MiB, in both locations (thorough: +-1 and every 64 KiB +-1, and a 6000-line image at every 4 KiB boundary +-1). A batch is non-trivial if it contains a proper prefix."
    )
    res.assumptions = ["post-crash states of one in-place write_text = byte prefixes of the document (single file, append after truncate)", "a writer still running exposes the same prefixes to a reader", "kills at wall-clock times are sampling and are not used; the kernel-delivered kill at an exact byte count is deterministic and enumerated"]
    # document lengths: ask one worker
    info = None
    for idx, case, out in core.pool_map(__name__, "doc_info", [{}], procs=1):
        info = out["info"]
    cases_seam, cases_full = [], []
    for level in ("1.1", "1.5"):
        for image in (0, 1):
            n = info[level][image]
            tokens = [p for p in info[level + ":tokens"][image] if 0 <= p <= n]
            for loc in ("local", "adjacent"):
                for c in chunks(range(0, n + 1), 700):
                    cases_seam.append({"fn": "execute_seam", "level": level, "image": image, "loc": loc, "cuts": c})
                if tier == "thorough":
                    sel = list(range(0, n + 1)) if image == 0 else sorted(set(tokens) | {0, n})
                    every = 4
                else:
                    sel = sorted(set(tokens[:: 3 if image == 0 else 15]) | set(range(0, n + 1, 32 if image == 0 else 128)) | set(range(0, 24)) | set(range(n - 24, n + 1)))
                    every = 8
                for c in chunks(sel, 60):
                    cases_full.append({"fn": "execute", "level": level, "image": image, "loc": loc, "cuts": c, "steps_every": every})
                # the write stopped because the volume was full, and it still is when the product is opened with the defaults
                full_sel = sorted(set(tokens[:: 5 if tier == "thorough" else 25]) | {0, 1, 2, n // 3, n // 2, n - 1})
                for c in chunks(full_sel, 60):
                    cases_full.append({"fn": "execute", "level": level, "image": image, "loc": loc, "cuts": c, "disk_full": True, "steps_every": every})
                    if loc == "local":
                        cases_full.append({"fn": "execute", "level": level, "image": image, "loc": loc, "cuts": c, "disk_full": True, "pair": "torn", "steps_every": every})
                pair_sel = sorted(set(tokens[:: 7 if tier == "thorough" else 40]) | {0, 1, n - 1, n})
                for c in chunks(pair_sel, 60):
                    cases_full.append({"fn": "execute", "level": level, "image": image, "loc": loc, "cuts": c, "pair": True, "steps_every": every})
                    if loc == "local":
                        cases_full.append({"fn": "execute", "level": level, "image": image, "loc": loc, "cuts": c, "pair": "torn", "steps_every": every})
    # real crash points: the writer is killed by the kernel when a cache file reaches k bytes
    cases_crash = []
    for level in ("1.1", "1.5"):
        nmax = max(info[level])
        toks = sorted({p for im in (0, 1) for p in info[level + ":tokens"][im]})
        ks = sorted(set(toks[:: 6 if tier == "thorough" else 40]) | {0, 1, 2, 100, nmax // 2, min(info[level]) - 1, min(info[level]), nmax - 1, nmax, nmax + 1} | (set(range(0, nmax + 1, 64)) if tier == "thorough" else set(range(0, nmax + 1, 1024))))
        for c in chunks(ks, 12):
            cases_crash.append({"fn": "execute_crash", "level": level, "limits": c})
    n_states = 0
    order = 0
    n_killed = 0
    for idx, case, out in core.pool_map(__name__, "execute_crash", cases_crash, chunksize=1):
        res.record({"fn": "execute_crash", "level": case["level"], "limits": [case["limits"][0], "..", case["limits"][-1]]}, out, order=order)
        order += 1
        n_states += out["n"]
        n_killed += out.get("killed", 0)
    res.extra["writers_killed_by_the_kernel"] = n_killed
    for fn, cases in (("execute_seam", cases_seam), ("execute", cases_full)):
        for idx, case, out in core.pool_map(__name__, fn, cases, chunksize=1):
            small = {k: v for k, v in case.items() if k != "cuts"} | {"cuts": [case["cuts"][0], "..", case["cuts"][-1]]}
            res.record(small, out, order=order)
            order += 1
            n_states += out["n"]
    # large index (> 1 MiB): crash points at every 4096-byte block boundary +-1 (thorough) / every 64 KiB (quick)
    # large index (> 5 MiB, an 18000-line image): crash points at every power of two 2^12..2^22 and every MiB multiple, +-1 (what a
    # block-wise copy or read leaves / mishandles), in both locations; thorough adds a 6000-line image cut at every 4 KiB boundary +-1
    LINES = 18000
    size = None
    for idx, case, out in core.pool_map(__name__, "execute_large", [{"lines": LINES, "cuts": "info"}], procs=1):
        size = out["size"]
    if size:
        grid = {2**j for j in range(12, 23)} | {k * 2**20 for k in range(1, 9)} | {5 * 2**20, 3 * 2**19}
        if tier == "thorough":
            grid |= set(range(0, size + 1, 65536))
        pts = sorted({p + d for p in grid for d in ((-1, 0, 1) if tier == "thorough" else (0,)) if 0 <= p + d <= size} | {0, 1, size - 1, size})
        big = [{"fn": "execute_large", "lines": LINES, "cuts": c, "steps_every": 8, "loc": loc} for loc in ("local", "adjacent") for c in chunks(pts, 3 if tier == "quick" else 8)]
        if tier == "thorough":
            big += [{"fn": "execute_large", "lines": 6000, "cuts": c, "steps_every": 8} for c in chunks(sorted({p + d for p in range(0, 1_800_000, 4096) for d in (-1, 0, 1) if p + d >= 0}), 24)]
        for idx, case, out in core.pool_map(__name__, "execute_large", big, chunksize=1):
            res.record({"fn": "execute_large", "lines": case["lines"], "loc": case.get("loc", "local"), "cuts": [case["cuts"][0], "..", case["cuts"][-1]]}, out, order=order)
            order += 1
            n_states += out["n"]
        res.extra["large_index_bytes"] = size
    res.extra["torn_states_executed"] = n_states
    res.extra["document_lengths"] = {k: v for k, v in info.items() if not k.endswith("tokens")}


def doc_info(case):
    return {"ok": True, "info": doc_lengths(), "nontrivial": False, "outcome": "info"}
