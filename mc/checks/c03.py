"""C03 - per-line and header image metadata (DESIGN §4 C03).

Both record types; baseline with line-distinct values for L in 1..3; every
prefix field x value alphabet x line (single deviations); per-file constants
deviated on all lines at once; time stamps from the calendar boundary set;
header optional fields x {blank, 0, value, full width}; neighbour pairs with
full-width values (thorough).  All /imagery leaves are compared with the
reference model.
"""
import struct

from mc import alphabets, core, synth, treecheck

ID = "C03"
LEVEL = "exploration"

YDMS = [(y, d, ms) for y in (2014, 2016, 2049) for d in (1, 59, 60, 61, 365, 366) for ms in (0, 1, 86399999) if d < 366 or y % 4 == 0]
US = (0, 1, 86_399_999_999)
HEADER = {
    "sar_related_data_in_the_record.interleaving_id": [b"    ", b"BSQ ", b"BIL ", b" BIP", b"ABCD"],
    "prefix_suffix_data_locators.maximum_data_range_of_pixel": [b"        ", b"       0", b"   65535", b"99999999", b"255     "],
    "prefix_suffix_data_locators.number_of_burst_data": [b"    ", b"   0", b"   7", b"9999"],
    "prefix_suffix_data_locators.number_of_lines_per_burst": [b"    ", b"   0", b"  12", b"9999"],
    "scansar_burst_data_information.number_of_overlap_lines_with_adjacent_bursts": [b"    ", b"   0", b"  34", b"9999"],
}
SKIP = {"record_start", "data"}


def fields_of(level):
    lay = synth.layout(synth.TYPE_INFO["C*8" if level == "1.1" else "IU2"]["rec"])
    for f in lay.fields:
        if f["name"].startswith("preamble.") or synth.is_spare(f["name"]):
            continue
        if f["name"] in ("sar_image_data_line_number",) or f["kind"] == "X":
            continue
        yield f


def spec_for(level, L):
    return {"level": level, "images": [["HH", None, L, 2], ["HV", None, max(L - 1, 1), 3]]}


def plan(tier, seed):
    cases = []
    for level in ("1.5", "1.1"):
        for L in (1, 2, 3):
            cases.append({"spec": spec_for(level, L), "devs": [], "label": f"{level} baseline L={L}"})
        sp = spec_for(level, 3)
        flds = list(fields_of(level))
        for f in flds:
            const = f["name"] in synth.LINE_CONSTANTS
            if f["kind"] == "ydms":
                for stamp in YDMS:
                    for line in (0, 2):
                        cases.append({"spec": sp, "devs": [["img0", "line", f["key"], {"hex": struct.pack(">III", *stamp).hex()}, line]], "label": f"{level} {f['key']}={stamp} line {line}"})
                continue
            if f["kind"] == "us":
                for us in US:
                    for stamp in ((2016, 366, 5), (2015, 59, 86399999)):
                        cases.append({"spec": sp, "devs": [["img0", "line", f["key"], {"hex": struct.pack(">Q", us).hex()}, 1], ["img0", "line", "sensor_acquisition_date", {"hex": struct.pack(">III", *stamp).hex()}, 1]], "label": f"{level} {f['key']}={us} on {stamp}"})
                continue
            for label, b in alphabets.for_field(f, seed):
                lines = [None] if const else ([0, 1, 2] if tier == "thorough" else [f["idx"] % 3])
                for line in lines:
                    cases.append({"spec": sp, "devs": [["img0", "line", f["key"], {"hex": b.hex()}, line]], "label": f"{level} {f['key']}={label} line {line}"})
        for key, vals in HEADER.items():
            for b in vals:
                cases.append({"spec": sp, "devs": [["img0", "file_descriptor", key, {"hex": b.hex()}]], "label": f"{level} header {key}={b!r}"})
        # all optional header fields blank at once
        cases.append({"spec": sp, "devs": [["img0", "file_descriptor", k, {"hex": v[0].hex()}] for k, v in HEADER.items()], "label": f"{level} header all blank"})
        if tier == "thorough":
            plain = [f for f in flds if f["kind"] == "B" and "enum" not in f and not f.get("flag")]
            for a, b in zip(plain, plain[1:]):
                if a["off"] + a["w"] == b["off"] and (a["name"] in synth.LINE_CONSTANTS) == (b["name"] in synth.LINE_CONSTANTS):
                    line = None if a["name"] in synth.LINE_CONSTANTS else 1
                    cases.append({"spec": sp, "devs": [["img0", "line", a["key"], {"hex": "ff" * a["w"]}, line], ["img0", "line", b["key"], {"hex": "fe" * b["w"]}, line]], "label": f"{level} pair {a['key']}+{b['key']} full width"})
    if tier == "thorough":
        # the metadata pass reads the line records in groups of rpc lines: every case again with small groups
        extra = []
        for c in cases:
            for rpc in (1, 2):
                extra.append({**c, "rpc": rpc, "label": f"{c['label']} rpc={rpc}"})
        for level in ("1.5", "1.1"):
            for L in (4, 5, 7):
                for rpc in (1, 2, 3, L, 1024):
                    extra.append({"spec": spec_for(level, L), "devs": [], "rpc": rpc, "label": f"{level} baseline L={L} rpc={rpc}"})
        cases += extra
    else:
        for level in ("1.5", "1.1"):
            for L, rpc in ((3, 1), (3, 2), (5, 2), (5, 3)):
                cases.append({"spec": spec_for(level, L), "devs": [], "rpc": rpc, "label": f"{level} baseline L={L} rpc={rpc}"})
    # the record sequence numbers of the preambles are bookkeeping: descending, rotated, equal, zero or gapped numbering must
    # not change which line is which
    for level in ("1.5", "1.1"):
        L = 6
        for label, seq in (("descending", [7, 6, 5, 4, 3, 2]), ("rotated run", [5, 6, 7, 2, 3, 4]), ("all equal", [2] * 6), ("zero", [0] * 6), ("gaps", [2, 4, 8, 16, 32, 64]), ("swapped pair", [2, 4, 3, 5, 6, 7]), ("from 1", [1, 2, 3, 4, 5, 6])):
            devs = [["img0", "line", "preamble.record_sequence_number", {"hex": int(n).to_bytes(4, "big").hex()}, k] for k, n in enumerate(seq)]
            for rpc in (2, 1024):
                cases.append({"spec": spec_for(level, L), "devs": devs, "rpc": rpc, "label": f"{level} record sequence numbers {label} rpc={rpc}"})
    # relationships between CONSECUTIVE lines: every ordered pair of stamps of one leap year on lines (1, 2), incl. time going
    # backwards by almost a day, forwards across midnight / new year, and equal stamps
    pair_stamps = [(2016, d, ms) for d in (1, 60, 365, 366) for ms in (0, 1, 43_200_000, 86_399_000, 86_399_999)] + [(2017, 1, 0), (2015, 365, 86_399_999)]
    for level in ("1.5", "1.1"):
        sp3 = spec_for(level, 4)
        for a in pair_stamps:
            for b in pair_stamps:
                devs = [["img0", "line", "sensor_acquisition_date", {"hex": struct.pack(">III", *a).hex()}, 1], ["img0", "line", "sensor_acquisition_date", {"hex": struct.pack(">III", *b).hex()}, 2]]
                if level == "1.1":
                    devs += [["img0", "line", "sensor_acquisition_date_microseconds", {"hex": struct.pack(">Q", a[2] * 1000 + 7).hex()}, 1], ["img0", "line", "sensor_acquisition_date_microseconds", {"hex": struct.pack(">Q", b[2] * 1000 + 7).hex()}, 2]]
                cases.append({"spec": sp3, "devs": devs, "label": f"{level} lines 1,2 stamped {a} then {b}"})
    # ScanSAR file names: full aperture (-F<n>) and SPECAN (-B<n>); the header attributes are the same fields of the same record
    for level, scans in (("1.1", ("F1", "B1", "B5", "F0")), ("1.5", ("F2", "B3"))):
        for scan in scans:
            cases.append({"spec": {"level": level, "images": [["HH", scan, 3, 2], ["HV", scan, 2, 3]]}, "devs": [], "label": f"{level} images named -{scan}"})
            for key, vals in HEADER.items():
                cases.append({"spec": {"level": level, "images": [["HH", scan, 3, 2]]}, "devs": [["img0", "file_descriptor", key, {"hex": vals[0].hex()}]], "label": f"{level} image named -{scan}, header {key} blank"})
    # more lines than one metadata request holds (default 1024), and hundreds of small requests
    for level in ("1.5", "1.1"):
        for L, rpc in ((1100, None), (1030, 1000), (300, 7), (260, 256)) if tier == "quick" else ((1100, None), (2100, None), (1030, 1000), (1025, 1024), (300, 7), (300, 1), (260, 256), (600, 64)):
            cases.append({"spec": {"level": level, "images": [["HH", None, L, 1]]}, "devs": [], "rpc": rpc, "label": f"{level} baseline L={L} rpc={rpc or 'default'}"})
    # the same statement must hold when the image groups come out of an index cache: scans of one
    # polarisation (file names that differ only behind the last '.'), several polarisations, both levels
    multi = {
        "1.1": [["HH", "F1", 3, 2], ["HH", "F2", 4, 3], ["HV", "F1", 2, 2], ["HV", "F2", 3, 4]],
        "1.5": [["HH", None, 3, 2], ["HV", None, 4, 3], ["VH", None, 2, 2], ["VV", None, 3, 4]],
    }
    for level, images in multi.items():
        for pre, kw, what in (
            ([], {}, "uncached"),
            ([], {"create_cache": True}, "open that writes the cache"),
            ([{"create_cache": True}], {}, "cached open"),
            ([{"use_cache": False, "create_cache": True}], {}, "cached open after use_cache=False,create_cache=True"),
            ([{"create_cache": True, "records_per_chunk": 2}], {"records_per_chunk": 3}, "cached open, other rpc"),
        ):
            cases.append({"spec": {"level": level, "images": images}, "devs": [], "pre": pre, "kw": kw, "label": f"{level} four images, {what}"})
    # line times decades apart within one image, read back through the cache (offsets from a reference must stay exact)
    for level in ("1.5", "1.1"):
        far = [(2014, 1, 0), (2049, 365, 86_399_999), (2030, 200, 43_200_001), (2014, 1, 1)]  # odd millisecond offsets from the first line: not representable as float64 nanoseconds beyond 18 years
        devs = [["img0", "line", "sensor_acquisition_date", {"hex": struct.pack(">III", *st).hex()}, k] for k, st in enumerate(far)]
        if level == "1.1":
            devs += [["img0", "line", "sensor_acquisition_date_microseconds", {"hex": struct.pack(">Q", st[2] * 1000 + 999).hex()}, k] for k, st in enumerate(far)]
        for pre, what in (([], "uncached"), ([{"create_cache": True}], "cached open")):
            cases.append({"spec": spec_for(level, 4), "devs": devs, "pre": pre, "kw": {}, "label": f"{level} line times 35 years apart, {what}"})
    # long per-line columns through the cache: piecewise-constant values, and 32-bit maxima / high bits on a few of 4200 lines
    for level in ("1.5", "1.1"):
        flds = [f for f in fields_of(level) if f["kind"] == "B" and "enum" not in f and not f.get("flag") and f["name"] not in synth.LINE_CONSTANTS]
        extreme = [["img0", "line", f["key"], {"hex": "ff" * f["w"]}, ln] for f in flds for ln in (0, 4100)] + [["img0", "line", f["key"], {"hex": "80" + "00" * (f["w"] - 1)}, 4199] for f in flds]
        for pre, what in (([], "uncached"), ([{"create_cache": True}], "cached open")):
            cases.append({"spec": {"level": level, "images": [["HH", None, 24, 1]], "line_mode": "steps"}, "devs": [], "pre": pre, "kw": {}, "label": f"{level} 24 lines piecewise constant, {what}"})
            for mode in ("drift", "bumpy", "bumpy-const"):  # exact ramps, and ramps / constants that two lines miss by one unit
                cases.append({"spec": {"level": level, "images": [["HH", None, 24, 1]], "line_mode": mode}, "devs": [], "pre": pre, "kw": {}, "label": f"{level} 24 lines per-line values {mode}, {what}"})
            cases.append({"spec": {"level": level, "images": [["HH", None, 4200, 1]], "line_mode": "steps"}, "devs": extreme, "pre": pre, "kw": {}, "label": f"{level} 4200 lines with extreme values on lines 0, 4100, 4199, {what}"})
    return cases


def execute_twins(case):
    """a 1.1 and a 1.5 image whose line records are equally long (544 + 8 P11 == 192 + 2 P15) parsed in one process, both orders"""
    fails = []
    order = [("1.1", case["P11"]), ("1.5", 176 + 4 * case["P11"])]
    if case["reverse"]:
        order.reverse()
    for level, P in order:
        out = treecheck.check_spec(treecheck.spec_from_case({"spec": {"level": level, "images": [["HH", None, case["L"], P]]}}), only=["/imagery"], open_kw={"records_per_chunk": case["rpc"]})
        for f in out["failures"][:3]:
            f["detail"] = f"{level} {case['L']}x{P} rpc={case['rpc']} parsed {'after' if (level, P) == order[1] else 'before'} its twin of equal record length: {f['detail']}"
            f["case"] = {**case, "fn": "execute_twins"}
            fails.append(f)
    return {"ok": not fails, "failures": fails, "outcome": "twins-ok" if not fails else "twins-mismatch", "nontrivial": True, "unverified": []}


def execute_replaced(case):
    """image file replaced in place by one of equal size (other line values), optionally keeping its modification time"""
    sp = {"level": case["level"], "images": [["HH", None, 5, 2], ["HV", None, 3, 2]]}
    a = treecheck.spec_from_case({"spec": sp})
    b = treecheck.spec_from_case({"spec": {**sp, "line_mode": "drift"}})
    kw = {"records_per_chunk": case["rpc"], "use_cache": False}
    out = treecheck.check_replaced(a, b, kind=case["fs"], keep_mtime=case["keep_mtime"], only=["/imagery"], open_kw=kw)
    fails = out["failures"][:3]
    for f in fails:
        f["detail"] = f"{case['level']} images replaced in place on {case['fs']} (modification time {'kept' if case['keep_mtime'] else 'new'}), second open: {f['detail']}"
        f["case"] = {**case, "fn": "execute_replaced"}
    return {"ok": not fails, "failures": fails, "outcome": "replaced-ok" if not fails else "replaced-stale", "nontrivial": True, "unverified": []}


def execute(case):
    spec = treecheck.spec_from_case(case)
    kw = dict(case.get("kw") or {})
    if case.get("rpc"):
        kw["records_per_chunk"] = case["rpc"]
    if "pre" in case:
        from mc import env

        env.wipe_cache()
    out = treecheck.check_spec(spec, only=["/imagery"], open_kw=kw or None, pre=case.get("pre", ()))
    fails = out["failures"]
    for f in fails:
        f["detail"] = f"{case['label']}: {f['detail']}"
        f["case"] = case
    return {"ok": not fails, "failures": fails, "outcome": "ok" if not fails else fails[0]["sig"].get("kind", "leaf-mismatch"), "nontrivial": True, "unverified": out["unverified"][:20]}


def run(res, tier, seed):
    res.rule = (
        "both record types; baselines L=1..3; every prefix field x {0,1,mid,max,high bit | every enum code | flag 0,1,2} on one"
        " line (quick) / each line (thorough), per-file constants on all lines; (year,day,ms) over 3 years x days"
        " {1,59,60,61,365,366} x ms {0,1,86399999}; us {0,1,86399999999}; 5 optional header fields x {blank,0,value,full width};"
        " neighbour pairs full width (thorough); every ordered pair of 22 stamps on two consecutive lines; -F<n> / -B<n> file names; images of 260..2100 lines (more than one metadata request at the default rpc, hundreds of small ones); four-image products (two scans x two polarisations, four polarisations) uncached, while writing the index cache and through it; 24-line piecewise-constant and 4200-line images with extreme values, uncached and through the cache; pairs of a 1.1 and a 1.5 image with equal record length parsed in one process in both orders; image files replaced in place by files of equal size (modification time kept / new) between two opens. Every case is a distinct product compared on all /imagery leaves."
    )
    res.assumptions = ["per-file constants are constant over the lines of a file (the property calls them constants)", "a blank interleaving id may surface as absent or as '' (C03 and C20 word it differently)"]
    unv = set()
    for idx, case, out in core.pool_map(__name__, "execute", plan(tier, seed), chunksize=4):
        res.record(case, out, order=idx)
        unv.update(out["unverified"])
    twins = [{"L": L, "rpc": rpc, "P11": p11, "reverse": rev} for L in (2, 5) for rpc in (1, 2, 1024) for p11 in (1, 3) for rev in (False, True)]
    for idx, case, out in core.pool_map(__name__, "execute_twins", twins, chunksize=2):
        res.record({**case, "fn": "execute_twins"}, out, order=10**6 + idx)
    rep = [{"level": lv, "fs": fs, "keep_mtime": km, "rpc": rpc} for lv in ("1.5", "1.1") for fs in ("local", "mcfs") for km in (True, False) for rpc in (2, 1024)]
    for idx, case, out in core.pool_map(__name__, "execute_replaced", rep, chunksize=1):
        res.record({**case, "fn": "execute_replaced"}, out, order=2 * 10**6 + idx)
    res.extra["unverified_leaves"] = sorted(unv)[:50]
