"""C19 - concurrent reads are safe (DESIGN §4 C19).  Model checking of real threads.

One tree opened over mcfs:// (two images of 5 lines x 4 pixels, rpc 2) plus a
pickled copy.  Scenarios: two threads on the same variable (overlapping /
disjoint line groups), on different variables, original + pickled copy; three
threads (two on one variable, one on the other).  All interleavings of the
filesystem / lock yield points with preemption bound 0..3 (2 threads) and 0..2
(3 threads); thorough adds line-granular yield points inside the library at
bound 2.  Oracle: every thread's bytes equal the sequential result, all
threads finish (no deadlock), no thread raises.
"""
import hashlib
import os
import pickle
import subprocess
import sys
import threading

import numpy as np

from mc import core, env, harness, libstate, sched, synth, vfs

ID = "C19"
LEVEL = "model_checking"

SCENARIOS = {
    "same-var-overlap": [("t", "HH", [0, 3]), ("t", "HH", [2, 5])],
    "same-var-disjoint": [("t", "HH", [0, 2]), ("t", "HH", [4, 5])],
    "different-vars": [("t", "HH", [0, 3]), ("t", "HV", [2, 5])],
    "pickled-copy": [("t", "HH", [0, 3]), ("p", "HH", [2, 5])],
    "pickled-copy-other-var": [("t", "HH", [1, 4]), ("p", "HV", [0, 2])],
    # integer (single-line) selections take their own path through the indexing code
    "same-var-single-lines": [("t", "HH", 1), ("t", "HH", 3)],
    "same-var-line-then-slice": [("t", "HH", 4), ("t", "HH", [0, 3])],
    "copy-single-lines": [("t", "HH", 0), ("p", "HH", 4)],
    "three-threads": [("t", "HH", [0, 3]), ("t", "HH", [2, 5]), ("t", "HV", [1, 4])],
    # three loads of ONE variable (two of them wait at its lock while the first is inside), with index arrays that have gaps
    "three-same-var-arrays": [("t", "HH", [0, 3]), ("t", "HH", ("a", [0, 4])), ("t", "HH", ("a", [1, 3]))],
    "three-same-var-mixed": [("t", "HH", ("a", [4, 0])), ("t", "HH", 2), ("p", "HH", ("a", [1, 4]))],
    "two-arrays": [("t", "HH", ("a", [0, 2, 4])), ("t", "HH", ("a", [1, 3]))],
    # selections that touch no line at all, next to a real load of the same variable / of a copy
    "empty-and-load": [("t", "HH", [0, 4]), ("t", "HH", [3, 3])],
    "empty-copy-and-load": [("t", "HH", [1, 5]), ("p", "HH", [5, 5])],
    "empty-load-load": [("t", "HH", [2, 2]), ("t", "HH", [0, 3]), ("t", "HH", [2, 5])],
    "three-threads-copy": [("t", "HH", [0, 2]), ("p", "HH", [3, 5]), ("p", "HV", [0, 5])],
}

# a product with many images, every image read once before the concurrent loads start (state such as a bounded pool of
# open handles only builds up with use): every ordered pair of images
MANY = [(pol, f"F{k}") for k in range(1, 7) for pol in ("HH", "HV")]
for _a in range(len(MANY)):
    for _b in range(len(MANY)):
        if _a != _b:
            SCENARIOS[f"warm12:{_a}:{_b}"] = {"product": "many", "warm": True, "threads": [("t", harness.group_name(*MANY[_a]), [0, 3]), ("t", harness.group_name(*MANY[_b]), [2, 5])]}

# a filesystem whose open() returns the ONE stored file object, rewound (fsspec's memory:// behaves like this): the handle is
# shared between all loads of a file, so everything between open and the last read has to be protected
for _name in ("same-var-overlap", "same-var-disjoint", "pickled-copy", "different-vars", "same-var-single-lines", "three-threads"):
    SCENARIOS[f"shared-handle:{_name}"] = {"product": "shared", "threads": SCENARIOS[_name]}

# the product lies on the LOCAL filesystem (fsspec's LocalFileSystem: ``local_file`` true), its reads observable / schedulable
for _name in ("same-var-overlap", "same-var-disjoint", "pickled-copy", "different-vars", "same-var-single-lines", "same-var-line-then-slice", "three-threads", "three-same-var-arrays"):
    SCENARIOS[f"local-fs:{_name}"] = {"product": "local", "threads": SCENARIOS[_name]}

_ctx = {}
_many = {}
_shared = {}
_local = {}


def install_shims():
    """make every lock the library can reach cooperative (before the tree is created)"""
    import concurrent.futures

    import xarray.backends.locks as xl

    shim = sched.shim_namespace()
    xl.threading = shim
    real = (type(threading.Lock()), type(threading.RLock()))
    for name, mod in list(sys.modules.items()):
        if not name.startswith("ceos_alos2") or mod is None:
            continue
        if getattr(mod, "threading", None) is threading:
            mod.threading = shim
        for k, v in list(vars(mod).items()):
            if v is concurrent.futures.Future:  # futures the library waits on: their condition becomes cooperative
                setattr(mod, k, sched.coop_future_class())
            elif isinstance(v, real):
                setattr(mod, k, sched.CoopLock())
            elif isinstance(v, type):
                for ak, av in list(vars(v).items()):
                    if isinstance(av, real):
                        setattr(v, ak, sched.CoopLock())
            elif getattr(type(v), "__module__", "").startswith("ceos_alos2") and hasattr(v, "__dict__"):
                # a module-level instance of a library class (registry, pool, ...) that created its lock at import time
                for ak, av in list(vars(v).items()):
                    if isinstance(av, real):
                        try:
                            setattr(v, ak, sched.CoopLock())
                        except Exception:
                            pass


def setup():
    if _ctx:
        return _ctx
    lib = env.import_lib()
    install_shims()
    images = [synth.image_spec("HH", None, 5, 4, "IU2"), synth.image_spec("HV", None, 5, 4, "IU2")]
    spec = synth.product_spec("1.5", images=images)
    files, _ = synth.build(spec)
    prod = harness.Product(files, "mcfs")
    tree = prod.open(use_cache=False, records_per_chunk=2)
    ref = {n: np.asarray(tree[f"imagery/{n}/data"].values).copy() for n in ("HH", "HV")}
    # every execution starts from fresh copies (state kept on the array objects must not carry over from
    # one schedule to the next); in-process pickled copies share the per-variable locks with the original,
    # which stays alive here, exactly like "tree + pickled copy" in user code
    _ctx.update({"prod": prod, "orig": tree, "blob": pickle.dumps(tree), "ref": ref, "prefix": str(env.REPO / "ceos_alos2") + os.sep})
    # ... and from the same process-level state of the library (module globals, class attributes, caches)
    _ctx["libstate"] = libstate.Snapshot()
    return _ctx


def setup_many():
    if _many:
        return _many
    c = setup()  # shims first
    images = [synth.image_spec(pol, scan, 5, 2, "C*8") for pol, scan in MANY]
    spec = synth.product_spec("1.1", images=images)
    files, _ = synth.build(spec)
    prod = harness.Product(files, "mcfs")
    tree = prod.open(use_cache=False, records_per_chunk=2)
    names = [harness.group_name(pol, scan) for pol, scan in MANY]
    ref = {n: np.asarray(tree[f"imagery/{n}/data"].values).copy() for n in names}
    _many.update({"prod": prod, "orig": tree, "blob": pickle.dumps(tree), "ref": ref, "prefix": c["prefix"], "names": names})
    _many["libstate"] = libstate.Snapshot()
    return _many


def setup_shared():
    if _shared:
        return _shared
    c = setup()
    images = [synth.image_spec("HH", None, 5, 4, "IU2"), synth.image_spec("HV", None, 5, 4, "IU2")]
    files, _ = synth.build(synth.product_spec("1.5", images=images))
    prod = harness.Product(files, "mcfs-shared")
    tree = prod.open(use_cache=False, records_per_chunk=2)
    ref = {n: np.asarray(tree[f"imagery/{n}/data"].values).copy() for n in ("HH", "HV")}
    _shared.update({"prod": prod, "orig": tree, "blob": pickle.dumps(tree), "ref": ref, "prefix": c["prefix"], "names": ["HH", "HV"]})
    _shared["libstate"] = libstate.Snapshot()
    return _shared


def setup_local():
    if _local:
        return _local
    c = setup()
    images = [synth.image_spec("HH", None, 5, 4, "IU2"), synth.image_spec("HV", None, 5, 4, "IU2")]
    files, _ = synth.build(synth.product_spec("1.5", images=images))
    prod = harness.Product(files, "mclocal")
    tree = prod.open(use_cache=False, records_per_chunk=2)
    ref = {n: np.asarray(tree[f"imagery/{n}/data"].values).copy() for n in ("HH", "HV")}
    _local.update({"prod": prod, "orig": tree, "blob": pickle.dumps(tree), "ref": ref, "prefix": c["prefix"], "names": ["HH", "HV"]})
    _local["libstate"] = libstate.Snapshot()
    return _local


def rows_of(sel):
    if isinstance(sel, tuple) and sel[0] == "a":
        return list(sel[1])
    return sel if isinstance(sel, int) else slice(sel[0], sel[1])


def label(ev):
    return (ev[0], ev[1].rsplit("/", 1)[-1], ev[3], ev[4])


def scenario(name, lines):
    sc = SCENARIOS[name]
    if isinstance(sc, dict):
        c, threads, warm = {"many": setup_many, "shared": setup_shared, "local": setup_local}[sc["product"]](), sc["threads"], sc.get("warm", False)
    else:
        c, threads, warm = setup(), sc, False
    tracer = sched.line_tracer(c["prefix"]) if lines else None

    def make(s):
        out = {}
        c["libstate"].restore()
        trees = {"t": pickle.loads(c["blob"]), "p": pickle.loads(c["blob"])}
        if warm:  # sequential history before the threads start (no scheduler involved: Sched.current is None)
            vfs.HOOK[0] = None
            for n in c["names"]:
                trees["t"][f"imagery/{n}/data"].isel(rows=0).values
        vfs.HOOK[0] = lambda ev: sched.Sched.current and sched.Sched.current.yield_point(label(ev))
        for i, (which, img, sel) in enumerate(threads):
            def body(i=i, which=which, img=img, sel=sel):
                if tracer:
                    sys.settrace(tracer)
                try:
                    out[i] = np.asarray(trees[which][f"imagery/{img}/data"].isel(rows=rows_of(sel)).values)
                finally:
                    if tracer:
                        sys.settrace(None)

            s.spawn(i, body)
        return out

    def judge(out, s):
        """-> list of (kind, detail)"""
        vfs.HOOK[0] = None
        bad = []
        if isinstance(s.error, sched.Deadlock):
            bad.append(("deadlock", f"no enabled thread: {s.error}"))
        for i, (which, img, sel) in enumerate(threads):
            want = c["ref"][img][rows_of(sel)]
            if i in s.exceptions:
                bad.append(("thread-raises", f"thread {i} ({img}[{sel}]): {type(s.exceptions[i]).__name__}: {str(s.exceptions[i])[:100]}"))
            elif i not in out:
                if not bad:
                    bad.append(("thread-unfinished", f"thread {i} did not finish"))
            elif out[i].tobytes() != want.tobytes() or out[i].shape != want.shape:
                bad.append(("wrong-values", f"thread {i} ({which}:{img}[{sel}]) loaded {out[i].tolist()} instead of {want.tolist()}"))
        return bad

    return make, judge


def run_subtree(case):
    """explore the subtree below case['root'] (or just expand it when case['expand'])"""
    name, bound, lines = case["scenario"], case["bound"], case.get("lines", False)
    make, judge = scenario(name, lines)
    fails, orders, stats = [], set(), {"executions": 0, "decisions": 0, "replays": 0}

    def check(out, s):
        bad = judge(out, s)
        orders.add(hashlib.sha1(repr(s.events).encode()).digest()[:8])
        need_replay = bool(bad) or stats["replays"] < 3
        if need_replay:
            # determinism: the same schedule must reproduce the same events and verdict
            s2 = sched.Sched(list(s.trace))
            out2 = make(s2)
            s2.run()
            bad2 = judge(out2, s2)
            stats["replays"] += 1
            if s2.events != s.events or [b[0] for b in bad2] != [b[0] for b in bad]:
                # the same schedule from fresh copies behaves differently: state outside the array objects
                # (process-global) differs between the two runs.  Never report an irreproducible failure.
                stats["divergent_replays"] = stats.get("divergent_replays", 0) + 1
                if bad and not bad2:
                    bad = []
        for kind, detail in bad:
            sig = {"kind": kind, "scenario": name}
            if core.jkey(sig) not in {core.jkey(f["sig"]) for f in fails}:
                fails.append({"sig": sig, "detail": f"{name} bound {bound}{' line-level' if lines else ''} schedule {s.trace} ({s.preemptions()} preemptions): {detail}", "case": {"fn": "replay", "scenario": name, "lines": lines, "schedule": list(s.trace)}})

    if case.get("expand"):
        st, kids = sched.children_of(make, bound, lambda o, s: check(o, s), root=case["root"])
        stats["executions"] += 1
        stats["decisions"] += st["decisions"]
        return {"ok": not fails, "failures": fails, "outcome": "expand", "nontrivial": True, "kids": kids, **{"divergent_replays": 0, **stats}, "orders": len(orders), "order_ids": [o.hex() for o in orders]}
    st = sched.explore(make, bound, check, root=case["root"])
    stats["executions"] += st["executions"]
    stats["decisions"] += st["decisions"]
    return {"ok": not fails, "failures": fails, "outcome": "ok" if not fails else fails[0]["sig"]["kind"], "nontrivial": st["executions"] > 0, **{"divergent_replays": 0, **stats}, "orders": len(orders), "order_ids": [o.hex() for o in sorted(orders)][:4000], "max_preemptions": st["max_preemptions"]}


def replay(case):
    make, judge = scenario(case["scenario"], case.get("lines", False))
    s = sched.Sched(case["schedule"])
    out = make(s)
    s.run()
    bad = judge(out, s)
    return {"ok": not bad, "outcome": "ok" if not bad else bad[0][0], "detail": "; ".join(b[1] for b in bad), "events": len(s.events)}


def free_running(rounds=200):
    """non-deciding supplement: the same bodies on free-running real threads with real locks"""
    env.private_cache_home()
    lib = env.import_lib()
    images = [synth.image_spec("HH", None, 5, 4, "IU2"), synth.image_spec("HV", None, 5, 4, "IU2")]
    files, _ = synth.build(synth.product_spec("1.5", images=images))
    prod = harness.Product(files, "mcfs")
    tree = prod.open(use_cache=False, records_per_chunk=2)
    ref = {n: np.asarray(tree[f"imagery/{n}/data"].values).copy() for n in ("HH", "HV")}
    trees = {"t": tree, "p": pickle.loads(pickle.dumps(tree))}
    bad = 0
    for r in range(rounds):
        for name, threads in SCENARIOS.items():
            if isinstance(threads, dict):
                continue
            out = {}
            barrier = threading.Barrier(len(threads))

            def body(i, which, img, sel):
                barrier.wait()
                out[i] = np.asarray(trees[which][f"imagery/{img}/data"].isel(rows=rows_of(sel)).values)

            ths = [threading.Thread(target=body, args=(i, w, img, sel)) for i, (w, img, sel) in enumerate(threads)]
            [t.start() for t in ths]
            [t.join(30) for t in ths]
            for i, (w, img, sel) in enumerate(threads):
                if i not in out or out[i].tobytes() != ref[img][rows_of(sel)].tobytes():
                    bad += 1
                    print(f"FREE-RUNNING-MISMATCH scenario={name} thread={i}")
    print(f"free-running rounds={rounds} scenarios={len(SCENARIOS)} mismatches={bad}")
    return bad


def plan(tier):
    jobs = []
    for name, threads in SCENARIOS.items():
        if isinstance(threads, dict) and threads["product"] == "shared":
            for b in (0, 1, 2):
                jobs.append({"scenario": name, "bound": b, "lines": False})
            continue
        if isinstance(threads, dict) and threads["product"] == "local":
            for b in (0, 1, 2, 3) if len(threads["threads"]) == 2 else (0, 1, 2):
                jobs.append({"scenario": name, "bound": b, "lines": False})
            continue
        if isinstance(threads, dict):
            jobs.append({"scenario": name, "bound": 1 if tier == "quick" else 2, "lines": False})
            continue
        bounds = (0, 1, 2, 3) if len(threads) == 2 else (0, 1, 2)
        for b in bounds:
            jobs.append({"scenario": name, "bound": b, "lines": False})
        if tier == "thorough" and name in ("same-var-overlap", "different-vars", "pickled-copy", "same-var-single-lines", "same-var-line-then-slice"):
            jobs.append({"scenario": name, "bound": 2, "lines": True})
        elif tier == "quick" and name in ("same-var-overlap", "different-vars", "same-var-single-lines"):
            jobs.append({"scenario": name, "bound": 1, "lines": True})
    return jobs


def run(res, tier, seed):
    res.rule = (
        "scenarios {same variable overlapping/disjoint groups, single-line (integer) selections, different variables, original+pickled copy (same/other variable),"
        " three threads, three threads with copies; six scenarios on a filesystem whose open() returns one shared, rewound file object per path (like memory://); eight scenarios on the local filesystem (fsspec's LocalFileSystem with traced reads); every ordered pair of the 12 images of a ScanSAR product after each image was read once} x preemption bound 0..3 (2 threads) / 0..2 (3 threads) at filesystem+lock yield"
        " points; line-granular yield points inside ceos_alos2 at bound 1 (quick) / 2 (thorough). states = distinct event orders"
        " observed, transitions = scheduling decisions executed, traces = complete schedules executed on the real threads; the"
        " first schedules of every job and every failing schedule are replayed and must reproduce identical events."
    )
    res.assumptions = [
        "yield points: mcfs open/seek/read/close/info events, acquisition of the (real SerializableLock's) primitive lock, library line events; preemption inside C code is not modelled",
        "a free-running real-thread pass of the same bodies is run as a non-deciding supplement",
    ]
    total = {"executions": 0, "decisions": 0, "divergent_replays": 0}
    orders = {}
    per_job = {}
    # expand every job one or two levels, then explore the subtrees in parallel
    level = [{**j, "root": [], "expand": True} for j in plan(tier)]
    subtrees = []
    order = 0
    for depth in range(2):
        nxt = []
        for idx, case, out in core.pool_map(__name__, "run_subtree", level, chunksize=1):
            key = (case["scenario"], case["bound"], case["lines"])
            res.record({k: case[k] for k in ("scenario", "bound", "lines", "root")}, out, order=order)
            order += 1
            total["executions"] += out["executions"]
            total["decisions"] += out["decisions"]
            total["divergent_replays"] += out["divergent_replays"]
            per_job[key] = per_job.get(key, 0) + out["executions"]
            orders.setdefault(key, set()).update(out["order_ids"])
            for k in out["kids"]:
                (nxt if depth == 0 and case["lines"] else subtrees).append({**{kk: case[kk] for kk in ("scenario", "bound", "lines")}, "root": k, "expand": depth == 0 and case["lines"]})
        level = nxt
        if not level:
            break
    for idx, case, out in core.pool_map(__name__, "run_subtree", [{**c, "expand": False} for c in subtrees], chunksize=2):
        key = (case["scenario"], case["bound"], case["lines"])
        res.record({k: case[k] for k in ("scenario", "bound", "lines", "root")}, out, order=order)
        order += 1
        total["executions"] += out["executions"]
        total["decisions"] += out["decisions"]
        total["divergent_replays"] += out["divergent_replays"]
        per_job[key] = per_job.get(key, 0) + out["executions"]
        orders.setdefault(key, set()).update(out["order_ids"])
    res.extra["divergent_replays"] = total["divergent_replays"]
    res.states = sum(len(v) for v in orders.values())
    res.transitions = total["decisions"]
    res.traces = total["executions"]
    res.extra["schedules_per_job"] = {f"{k[0]}/bound{k[1]}{'/lines' if k[2] else ''}": v for k, v in sorted(per_job.items())}
    res.extra["distinct_event_orders_per_job"] = {f"{k[0]}/bound{k[1]}{'/lines' if k[2] else ''}": len(v) for k, v in sorted(orders.items())}
    # non-deciding supplement in a separate process (real locks, no scheduler)
    r = subprocess.run([sys.executable, "-c", "from mc.checks import c19; import sys; sys.exit(1 if c19.free_running(%d) else 0)" % (50 if tier == "quick" else 400)], capture_output=True, text=True, cwd=str(env.VERIF), env={**os.environ, "PYTHONPATH": str(env.VERIF)})
    res.extra["free_running_supplement"] = r.stdout.strip().splitlines()[-1:] or [r.stderr[-200:]]
    if r.returncode == 1:
        res.failures.append({"case": {"fn": "free_running"}, "sig": {"kind": "free-running-mismatch"}, "detail": r.stdout[-400:], "order": 10**9})
    elif r.returncode != 0:
        raise core.HarnessError(f"free-running supplement crashed: {r.stderr[-400:]}")
