"""C07 - cache transparency (DESIGN §4 C07).  Exhaustive over configurations.

product {1.1 ScanSAR, 1.5 dual-pol} x producer {open option, CLI adjacent, CLI
into the user-cache dir, both, none} x filesystem {local path, file://,
memory://, mcfs+options} x rpc at write {1,2,4096} x rpc at read {1,3,1024}.
Per scenario: (i) cached tree == uncached tree (structure, dtypes, coords,
attrs, preferred chunks of the *current* rpc, pixel bytes) and the pixel-load
I/O pattern is that of the current rpc; (ii) with a usable cache the image file
is not touched at open time, only the index is; pixel loads touch only that
image on the same filesystem; (iii) use_cache=False consults no index - a
poisoned (valid but different) index at every location changes nothing;
(iv) without a cache the product is parsed normally.
"""
import shutil

import numpy as np

from mc import cachelab, core, env, harness, synth, treesnap, vfs

ID = "C07"
LEVEL = "model_checking"

PRODUCERS = ("none", "option", "cli-adjacent", "cli-target", "both")


def product_files(level, line_mode=None):
    if level == "1.1":
        images = [synth.image_spec("HH", "F1", 3, 2, "C*8"), synth.image_spec("HH", "F2", 2, 3, "C*8")]
    else:
        images = [synth.image_spec("HH", None, 3, 2, "IU2"), synth.image_spec("HV", None, 2, 3, "IU2")]
    if line_mode:
        # more lines, whose per-line values are identical / differ by one unit from line to line
        images = [synth.image_spec(im["pol"], im["scan"], im["lines"] + (20 if line_mode.startswith("bumpy") else 3 if not line_mode.startswith("steps") else 20 if line_mode == "steps" else 90), im["pixels"], im["type"]) for im in images]
        for im in images:
            im["line_mode"] = "steps" if line_mode.startswith("steps") else line_mode
    spec = synth.product_spec(level, images=images)
    files, _ = synth.build(spec)
    return spec, files


produced = {}


def produce(prod, spec, files, producer, rpc_w, tag):
    """create caches; -> list of (location, image name)"""
    names = synth.file_names(spec)["img"]
    made = []
    root = prod.mapper_root()
    if producer in ("option", "both"):
        # the tree returned by the producing call is itself a "no cache present: parsed normally" tree
        t = prod.open(create_cache=True, use_cache=True, records_per_chunk=rpc_w)
        produced["tree"] = treesnap.snapshot(t)
        made += [("local", n) for n in names]
    if producer in ("cli-adjacent", "cli-target", "both"):
        if prod.kind in ("local", "file"):
            src = prod.dir
            copy = None
        else:
            copy = cachelab.local_copy(files, tag)
            src = copy
        target = None
        if producer == "cli-target":
            target = cachelab.user_cache_dir(root)
            target.mkdir(parents=True, exist_ok=True)
        rpc_cli = rpc_w if producer != "both" else {1: 2, 2: 4096, 4096: 1}[rpc_w]
        for n in names:
            code = cachelab.run_cli(src / n, target=target, rpc=rpc_cli)
            if code != 0:
                raise RuntimeError(f"CLI exit code {code}")
            if target is None:
                if copy is not None:
                    prod.put(f"{n}.index", (copy / f"{n}.index").read_bytes())
                made.append(("adjacent", n))
            else:
                made.append(("local", n))
        if copy is not None:
            shutil.rmtree(copy, ignore_errors=True)
    return made


def index_path(prod, loc, name):
    if loc == "local":
        return cachelab.user_cache_dir(prod.mapper_root()) / f"{name}.index"
    return None


def read_index(prod, loc, name):
    if loc == "local":
        return index_path(prod, loc, name).read_bytes()
    return prod.listing()[f"{name}.index"]


def write_index(prod, loc, name, data):
    if loc == "local":
        index_path(prod, loc, name).write_bytes(data)
    else:
        prod.put(f"{name}.index", data)


def touched(events_local, events_mcfs, suffix_pred):
    out = [e for e in events_local if e[0] == "open" and suffix_pred(e[1])]
    out += [e for e in events_mcfs if e[0] in ("open", "read", "seek", "open-missing") and suffix_pred(e[1])]
    return out


def load_pattern(tree, spec, kind):
    """per image: list of (offset, size) reads issued by a full pixel load (mcfs only)"""
    out = {}
    for im in spec["images"]:
        g = harness.group_name(im["pol"], im["scan"])
        vfs.reset_log()
        tree[f"imagery/{g}/data"].values
        out[g] = [(e[1].rsplit("/", 1)[1], e[3], e[4]) for e in vfs.LOG if e[0] == "read"]
    return out


def execute(case):
    env.import_lib()
    env.wipe_cache()
    level, producer, kind, rpc_w, rpc_r = case["level"], case["producer"], case["fs"], case["rpc_w"], case["rpc_r"]
    spec, files = product_files(level, case.get("line_mode"))
    names = synth.file_names(spec)["img"]
    fails = []

    def bad(k, detail, **extra):
        sig = {"kind": k, **extra}
        if core.jkey(sig) not in {core.jkey(f["sig"]) for f in fails}:
            fails.append({"sig": sig, "detail": f"{case}: {detail}", "case": case})

    is_img = lambda p: any(p.endswith("/" + n) or p == n for n in names)  # noqa: E731
    is_index = lambda p: p.endswith(".index")  # noqa: E731
    with harness.Product(files, kind) as prod:
        kind = prod.kind  # amcfs is observed like mcfs
        try:
            produced.clear()
            made = produce(prod, spec, files, producer, rpc_w, case.get("tag", "x"))
        except Exception as e:
            bad("cache-production-fails", f"{type(e).__name__}: {str(e)[:120]}", exc=type(e).__name__)
            env.wipe_cache()
            return {"ok": False, "failures": fails, "outcome": "production-fails"}
        if case.get("touch_images"):
            # the images are (re)deployed after their index files - same bytes, newer modification time: the caches are
            # still the caches of these images
            for n in names:
                prod.put(n, files[n])
        # uncached reference (iii part 1: no index consulted)
        with cachelab.recording() as ev:
            ref_tree = prod.open(use_cache=False, records_per_chunk=rpc_r)
        t = touched(cachelab.local_events(), list(vfs.LOG), is_index)
        info_idx = [e for e in vfs.LOG if e[0] == "info" and is_index(e[1])]
        if t or info_idx:
            bad("use_cache_false-consults-index", f"use_cache=False touched {(t + info_idx)[:2]}")
        ref = treesnap.snapshot(ref_tree)
        if "tree" in produced:
            ref_w = ref if rpc_w == rpc_r else treesnap.snapshot(prod.open(use_cache=False, records_per_chunk=rpc_w))
            d = treesnap.diff(ref_w, produced["tree"])
            if d:
                bad("producing-open-tree-differs", f"the tree returned by the create_cache=True open differs from a plain uncached open: {treesnap.short(d, 2)}")
        ref_pattern = load_pattern(ref_tree, spec, kind) if kind == "mcfs" else None
        # cached open
        with cachelab.recording() as ev:
            try:
                tree = prod.open(use_cache=True, records_per_chunk=rpc_r)
            except Exception as e:
                bad("cached-open-raises", f"{type(e).__name__}: {str(e)[:120]}", exc=type(e).__name__)
                tree = None
        if tree is not None:
            t_img = touched(cachelab.local_events(), list(vfs.LOG), is_img)
            t_idx = touched(cachelab.local_events(), list(vfs.LOG), is_index)
            if made and kind != "memory":
                if t_img:
                    bad("image-read-at-open-despite-cache", f"image file touched during cached open: {t_img[:2]}")
                if not t_idx:
                    bad("index-not-read", "a usable cache exists but no index file was opened")
            if not made and kind != "memory" and not t_img:
                bad("no-cache-but-image-not-parsed", "no cache present, yet the image files were not read")
            try:
                with cachelab.recording():
                    snap = treesnap.snapshot(tree)
                d = treesnap.diff(ref, snap)
                if d:
                    bad("cached-tree-differs", treesnap.short(d, 3), leaf=d[0][0].rsplit(":", 1)[-1].split("#")[0][:40] + "#" + d[0][0].rsplit("#", 1)[-1])
                # pixel loads: only image files, on the same filesystem
                loc = cachelab.local_events()
                foreign = [e for e in loc if e[0] == "open" and not is_img(e[1]) and "/prod" in e[1]]
                if kind in ("local", "file"):
                    wrong = [e for e in loc if e[0] == "open" and is_img(e[1]) and not e[1].startswith(str(prod.dir))]
                    if wrong:
                        bad("pixels-from-wrong-place", f"pixel load opened {wrong[:2]}, product is at {prod.dir}")
                elif kind in ("mcfs", "memory"):
                    wrong = [e for e in loc if e[0] == "open" and is_img(e[1])]
                    if wrong:
                        bad("pixels-from-wrong-filesystem", f"pixel load opened a local file {wrong[:1]} for a {kind} product")
                if kind == "mcfs":
                    other = [e for e in vfs.LOG if e[0] in ("open", "read") and not is_img(e[1])]
                    if other:
                        bad("pixel-load-touches-other-files", f"{other[:2]}")
                    pat = load_pattern(tree, spec, kind)
                    if pat != ref_pattern:
                        bad("read-pattern-not-current-rpc", f"cached pixel reads {pat} != uncached {ref_pattern}")
            except Exception as e:
                bad("cached-load-raises", f"loading the cached tree: {type(e).__name__}: {str(e)[:120]}", exc=type(e).__name__)
        # a fresh cached tree: the very FIRST pixel load reads exactly what an uncached tree's load reads (nothing is fetched or
        # verified lazily on first use), and an open with use_cache=True AND create_cache=True uses the usable cache as well
        if made and tree is not None and kind == "mcfs":
            try:
                fresh = prod.open(use_cache=True, records_per_chunk=rpc_r)
                pat = load_pattern(fresh, spec, kind)
                if pat != ref_pattern:
                    bad("first-load-read-pattern", f"first pixel load of a cached tree reads {pat}, an uncached tree's load reads {ref_pattern}")
                # rows 1.. of a fresh tree (a selection away from the start of the file)
                fresh = prod.open(use_cache=True, records_per_chunk=rpc_r)
                for im in spec["images"]:
                    g = harness.group_name(im["pol"], im["scan"])
                    vfs.reset_log()
                    fresh[f"imagery/{g}/data"].isel(rows=slice(im["lines"] - 1, None)).values
                    got = [(e[3], e[4]) for e in vfs.LOG if e[0] == "read"]
                    vfs.reset_log()
                    ref_tree[f"imagery/{g}/data"].isel(rows=slice(im["lines"] - 1, None)).values
                    want = [(e[3], e[4]) for e in vfs.LOG if e[0] == "read"]
                    if got != want:
                        bad("first-load-read-pattern", f"first load of the last line of {g} from a cached tree reads {got}, from an uncached tree {want}")
                with cachelab.recording():
                    both = prod.open(use_cache=True, create_cache=True, records_per_chunk=rpc_r)
                t_img = touched(cachelab.local_events(), list(vfs.LOG), is_img)
                if t_img:
                    bad("image-read-at-open-despite-cache", f"use_cache=True, create_cache=True with a usable cache: image file touched during the open: {t_img[:2]}", options="use+create")
                d = treesnap.diff(ref, treesnap.snapshot(both))
                if d:
                    bad("cached-tree-differs", f"use_cache=True, create_cache=True: {treesnap.short(d, 2)}", options="use+create")
            except Exception as e:
                bad("cached-load-raises", f"fresh cached tree: {type(e).__name__}: {str(e)[:120]}", exc=type(e).__name__)
        # the same cache used again in the same process with another rpc: still the current call's rpc
        if made and tree is not None:
            rpc_b = {1: 3, 3: 1024, 1024: 1}[rpc_r]
            try:
                ref_b_tree = prod.open(use_cache=False, records_per_chunk=rpc_b)
                ref_b = treesnap.snapshot(ref_b_tree)
                tree_b = prod.open(use_cache=True, records_per_chunk=rpc_b)
                d = treesnap.diff(ref_b, treesnap.snapshot(tree_b))
                if d:
                    bad("second-cached-open-differs", f"cached open at rpc={rpc_b} after one at rpc={rpc_r}: {treesnap.short(d, 2)}")
                if kind == "mcfs" and load_pattern(tree_b, spec, kind) != load_pattern(ref_b_tree, spec, kind):
                    bad("second-cached-open-read-pattern", f"cached open at rpc={rpc_b} after one at rpc={rpc_r} reads pixels in other groups than an uncached open")
            except Exception as e:
                bad("second-cached-open-raises", f"{type(e).__name__}: {str(e)[:120]}", exc=type(e).__name__)
        # (iii) part 2: poisoned but valid index at every location, use_cache=False must not care
        if made:
            try:
                by_loc = {}
                for loc, n in made:
                    by_loc.setdefault(loc, []).append(n)
                for loc, ns in by_loc.items():
                    if len(ns) >= 2:
                        a, b = read_index(prod, loc, ns[0]), read_index(prod, loc, ns[1])
                        write_index(prod, loc, ns[0], b)
                        write_index(prod, loc, ns[1], a)
                t2 = prod.open(use_cache=False, records_per_chunk=rpc_r)
                d = treesnap.diff(ref, treesnap.snapshot(t2))
                if d:
                    bad("use_cache_false-uses-index", f"poisoned index changed the use_cache=False tree: {treesnap.short(d, 2)}")
                # and the poisoned cache is indeed 'usable': use_cache=True must now differ (sanity of the poison)
                t3 = prod.open(use_cache=True, records_per_chunk=rpc_r)
                poisoned_visible = bool(treesnap.diff(ref, treesnap.snapshot(t3, load=False)))
                # use_cache=False together with create_cache=True: still no index consulted, and the
                # user-cache index is rewritten from the image (afterwards cached opens are right again)
                with cachelab.recording():
                    t4 = prod.open(use_cache=False, create_cache=True, records_per_chunk=rpc_r)
                idx_reads = [e for e in cachelab.local_events() if e[0] == "open" and is_index(e[1]) and not any(c in e[2] for c in "wax+")]
                idx_reads += [e for e in vfs.LOG if e[0] in ("open", "read", "info") and is_index(e[1])]
                if idx_reads:
                    bad("use_cache_false-consults-index", f"use_cache=False, create_cache=True read {idx_reads[:2]}")
                d = treesnap.diff(ref, treesnap.snapshot(t4))
                if d:
                    bad("use_cache_false-uses-index", f"use_cache=False, create_cache=True with a poisoned index: {treesnap.short(d, 2)}")
                t5 = prod.open(use_cache=True, records_per_chunk=rpc_r)
                d = treesnap.diff(ref, treesnap.snapshot(t5))
                if d:
                    bad("cache-not-refreshed", f"after use_cache=False, create_cache=True a cached open still differs: {treesnap.short(d, 2)}")
            except Exception as e:
                bad("poison-step-raises", f"{type(e).__name__}: {str(e)[:120]}", exc=type(e).__name__)
                poisoned_visible = None
        else:
            poisoned_visible = None
    env.wipe_cache()
    return {"ok": not fails, "failures": fails, "outcome": f"{producer}:{'ok' if not fails else fails[0]['sig']['kind']}", "nontrivial": True, "poison_visible": poisoned_visible}


def execute_locale(case):
    """the same scenario in a fresh interpreter whose locale encoding is ASCII (LC_ALL=C, UTF-8 mode and locale coercion off):
    index files are read and written with the locale's encoding unless the library says otherwise"""
    import json
    import os
    import subprocess
    import sys

    e = {**os.environ, "LC_ALL": "C", "LANG": "C", "PYTHONUTF8": "0", "PYTHONCOERCECLOCALE": "0", "PYTHONPATH": str(env.VERIF), "PYTHONIOENCODING": "utf-8"}
    e.pop("XDG_CACHE_HOME", None)
    code = "import json,sys,locale; from mc.checks import c07; case=json.loads(sys.argv[1]); out=c07.execute(case); out['encoding']=locale.getpreferredencoding(False); print('RESULT'+json.dumps(out, default=repr))"
    inner = {k: v for k, v in case.items() if k != "fn"}
    r = subprocess.run([sys.executable, "-c", code, json.dumps(inner)], capture_output=True, text=True, cwd=str(env.VERIF), env=e, timeout=600)
    line = next((l for l in r.stdout.splitlines() if l.startswith("RESULT")), None)
    if line is None:
        raise core.HarnessError(f"locale leg produced no result: {r.stderr[-600:]}")
    out = json.loads(line[len("RESULT") :])
    if out.get("encoding", "").lower().replace("-", "") in ("utf8",):
        raise core.HarnessError(f"the C locale leg ran with locale encoding {out.get('encoding')}")
    for f in out.get("failures", []):
        f["detail"] = f"[locale encoding {out.get('encoding')}] {f['detail']}"
        f["case"] = case
        f["sig"] = {**f["sig"], "locale": "C"}
    out["outcome"] = "C-locale:" + str(out.get("outcome"))
    return out


def plan(tier):
    cases = []
    levels = ("1.1", "1.5")
    for level in levels:
        for producer in PRODUCERS:
            for fs in harness.FS_KINDS:
                for rpc_w in (1, 2, 4096) if producer != "none" else (1,):
                    for rpc_r in (1, 3, 1024):
                        cases.append({"level": level, "producer": producer, "fs": fs, "rpc_w": rpc_w, "rpc_r": rpc_r})
    # per-line values that are constant over the image or change very slowly (what a size-optimised index would fold)
    for level in levels:
        for mode in ("equal", "drift", "steps", "steps-long", "bumpy", "bumpy-const"):
            for producer in ("option", "cli-adjacent", "cli-target"):
                for fs in ("mcfs", "local"):
                    cases.append({"level": level, "producer": producer, "fs": fs, "rpc_w": 2, "rpc_r": 3, "line_mode": mode})
    for level in levels:
        for producer in ("option", "cli-adjacent", "cli-target"):
            for fs in ("mcfs", "local"):
                cases.append({"level": level, "producer": producer, "fs": fs, "rpc_w": 2, "rpc_r": 3, "touch_images": True})
    for level in levels:  # an async fsspec implementation (I/O is observed like on mcfs)
        for producer in ("option", "cli-adjacent", "both"):
            cases.append({"level": level, "producer": producer, "fs": "amcfs", "rpc_w": 2, "rpc_r": 3})
    for i, c in enumerate(cases):
        c["tag"] = str(i)
    return cases


def run(res, tier, seed):
    res.rule = (
        "configurations = level {1.1 two ScanSAR images, 1.5 two polarisations} x producer {none, open option, CLI adjacent, CLI into"
        " user-cache dir, option+CLI} x filesystem {mcfs+storage_options, local path, file://, memory://} x rpc_write {1,2,4096} x"
        " rpc_read {1,3,1024}, plus per-line values {identical on all lines, drifting by one unit per line, piecewise constant over 22..23 and 92..93 lines (flags set and cleared again), ramps / constants over 22..23 lines that two lines miss by one unit} x producer x {mcfs, local};" " 12 configurations in which the image files are rewritten (same bytes, newer modification time) after their caches were made;" " 16 configurations again in an interpreter whose locale encoding is ASCII;" " each configuration = produce caches, uncached open,"
        " cached open, full loads, first loads (all lines / last line) of fresh cached trees, use_cache+create_cache open, poisoned-index opens; states = configurations, transitions = opens executed."
    )
    res.assumptions = ["I/O on memory:// cannot be observed (only tree equality is checked there)", "the adjacent index of a non-local product is produced by the CLI on a local copy and uploaded (documented workflow)"]
    n_poison = 0
    for idx, case, out in core.pool_map(__name__, "execute", plan(tier), chunksize=1):
        res.record(case, out, order=idx)
        n_poison += bool(out.get("poison_visible"))
    loc = [{"fn": "execute_locale", "level": level, "producer": producer, "fs": fs, "rpc_w": 2, "rpc_r": 3, "tag": f"loc{i}"} for i, (level, producer, fs) in enumerate((lv, pr, f) for lv in ("1.1", "1.5") for pr in ("option", "cli-adjacent", "cli-target", "both") for f in ("mcfs", "local"))]
    for idx, case, out in core.pool_map(__name__, "execute_locale", loc, chunksize=1):
        res.record(case, out, order=10**6 + idx)
    res.states = res.evaluations
    res.transitions = res.evaluations * 5
    res.traces = res.evaluations
    res.extra["scenarios_where_poison_was_visible_to_use_cache_true"] = n_poison
