"""C18 - fail-stop on truncated / missing files (DESIGN §4 C18).  Fault enumeration.

Image: every truncation length 0..size-1 x rpc {1,2,4,5,1024} x both types.
Leader / volume directory: every length (thorough) or every record/field
boundary +-1 plus a stride (quick).  Every single missing file x use_cache.
Outcome must be: raises (missing file -> OSError family), or returns with every
declared line loadable and equal to the truth (only possible for an uncut
file).  Promptness: the number of filesystem events of a failing open never
exceeds that of the intact open.
"""
import numpy as np

from mc import core, env, harness, synth, vfs

ID = "C18"
LEVEL = "fault_enumeration"

RPCS = (1, 2, 4, 5, 1024)


def make_product(tc, P=3, same=False):
    level = "1.1" if tc == "C*8" else "1.5"
    images = [synth.image_spec("HH", None, 4, P, tc), synth.image_spec("HV", None, 2, 2, tc) if not same else synth.image_spec("HV", None, 4, P, tc)]
    if same:  # ... and the same file descriptor, field by field (what the polarisations of one scene have)
        images[1]["twin_header"] = True
    spec = synth.product_spec(level, images=images)
    files, _ = synth.build(spec)
    return spec, files


def truth(im, image_id):
    raw = synth.default_samples(im["lines"], im["pixels"], im["type"], image_id)
    if im["type"] == "IU2":
        return raw.astype("uint16")
    f = raw.astype("float32").reshape(im["lines"], im["pixels"], 2)
    out = np.empty((im["lines"], im["pixels"]), dtype="complex64")
    out.real, out.imag = f[..., 0], f[..., 1]
    return out


def judge(prod, spec, rpc, use_cache, intact_events, what):
    """open + load everything; -> (outcome string, failure or None)"""
    vfs.reset_log()
    try:
        tree = prod.open(records_per_chunk=rpc, use_cache=use_cache)
    except BaseException as e:
        n = len(vfs.LOG)
        # "terminates promptly": the failing open stays within a small multiple of the work of an intact open (a re-read of the
        # short tail, a size probe or one retry are fine; a loop at the end of the file is not)
        if intact_events is not None and n > 2 * intact_events + 16:
            return "raises", {"sig": {"kind": "not-prompt"}, "detail": f"{what}: failing open issued {n} filesystem events, an intact open {intact_events}"}
        return f"raises:{type(e).__name__}", None
    # returned: every image must have its declared shape fully loadable and correct
    for i, im in enumerate(spec["images"]):
        name = harness.group_name(im["pol"], im["scan"])
        try:
            var = tree[f"imagery/{name}/data"]
            vals = np.asarray(var.values)
        except BaseException as e:
            return "returned", {"sig": {"kind": "returned-unloadable"}, "detail": f"{what}: open returned a tree but loading {name} raises {type(e).__name__}: {str(e)[:100]}"}
        want = truth(im, i)
        if tuple(var.shape) != (im["lines"], im["pixels"]) or vals.shape != want.shape or vals.tobytes() != want.tobytes():
            return "returned", {"sig": {"kind": "returned-wrong"}, "detail": f"{what}: open returned a tree whose image {name} has shape {vals.shape} / wrong values (declared {(im['lines'], im['pixels'])})"}
        rows = np.asarray(tree[f"imagery/{name}/rows"].values)
        if rows.shape != (im["lines"],):
            return "returned", {"sig": {"kind": "returned-short-metadata"}, "detail": f"{what}: {name} has {rows.shape} line entries, declared {im['lines']}"}
    return "returned-complete", None


def intact_event_count(prod, rpc):
    vfs.reset_log()
    prod.open(records_per_chunk=rpc, use_cache=False)
    return len(vfs.LOG)


def execute(case):
    tc, rpc = case["type"], case["rpc"]
    spec, files = make_product(tc, same=case.get("same", False))
    names = synth.file_names(spec)
    target = {"img": names["img"][0], "img1": names["img"][1], "led": names["led"], "vol": names["vol"]}[case["file"]]
    full = files[target]
    fails = []
    outcomes = {}
    with harness.Product(files, case.get("fs", "mcfs")) as prod:
        intact = intact_event_count(prod, rpc)
        for cut in case["cuts"]:
            prod.put(target, full[:cut])
            out, f = judge(prod, spec, rpc, False, intact, f"{case['file']} cut at {cut}/{len(full)} rpc={rpc} {tc}")
            if cut < len(full) and out == "returned-complete":
                f = {"sig": {"kind": "cut-not-noticed", "file": case["file"]}, "detail": f"{case['file']} cut at {cut}/{len(full)} rpc={rpc} {tc}: open and full load succeeded"}
            if cut == len(full) and out != "returned-complete" and f is None:
                f = {"sig": {"kind": "intact-fails", "file": case["file"]}, "detail": f"intact product does not open: {out}"}
            outcomes[out] = outcomes.get(out, 0) + 1
            if f:
                f["case"] = {**case, "cuts": [cut]}
                if core.jkey(f["sig"]) not in {core.jkey(x["sig"]) for x in fails}:
                    fails.append(f)
        prod.put(target, full)
    return {"ok": not fails, "failures": fails, "outcome": "+".join(sorted(outcomes)), "nontrivial": True, "n": len(case["cuts"]), "hist": outcomes}


def execute_seam(case):
    """narrow seam: ceos_alos2.sar_image.open_image on every cut (fast)"""
    import fsspec

    lib = env.import_lib()
    from ceos_alos2 import sar_image
    from ceos_alos2 import xarray as cx

    tc, rpc = case["type"], case["rpc"]
    spec, files = make_product(tc, case.get("P", 3))
    name = synth.file_names(spec)["img"][0]
    full = files[name]
    im = spec["images"][0]
    want = truth(im, 0)
    fails, outcomes = [], {}
    with harness.Product(files, "mcfs") as prod:
        mapper = fsspec.get_mapper(prod.url, **prod.storage_options)
        for cut in case["cuts"]:
            prod.put(name, full[:cut])
            try:
                group = sar_image.open_image(mapper, name, use_cache=False, records_per_chunk=rpc)
                ds = cx.to_dataset(group)
            except BaseException as e:
                out = f"raises:{type(e).__name__}"
            else:
                # the open returned: a load that raises now means fewer readable lines than declared
                try:
                    vals = np.asarray(ds["data"].values)
                    ok = vals.shape == want.shape and vals.tobytes() == want.tobytes() and ds["rows"].shape == (im["lines"],)
                    out = "returned-complete" if ok else "returned-wrong"
                except BaseException as e:
                    out = "returned-unloadable"
            outcomes[out] = outcomes.get(out, 0) + 1
            bad = (cut < len(full) and not out.startswith("raises")) or (cut == len(full) and out != "returned-complete")
            if bad:
                f = {"sig": {"kind": "cut-not-noticed" if cut < len(full) else "intact-fails", "file": "img", "seam": "open_image"}, "detail": f"open_image: cut at {cut}/{len(full)} rpc={rpc} {tc}: {out}", "case": {**case, "fn": "execute_seam", "cuts": [cut]}}
                if core.jkey(f["sig"]) not in {core.jkey(x["sig"]) for x in fails}:
                    fails.append(f)
    return {"ok": not fails, "failures": fails, "outcome": "+".join(sorted(outcomes)), "nontrivial": True, "n": len(case["cuts"]), "hist": outcomes}


def execute_large(case):
    """cuts of an image whose requests exceed 16 MiB / whose size exceeds 64 MiB (size-dependent read paths)"""
    tc, L, P = case["type"], case["L"], case["P"]
    info = synth.TYPE_INFO[tc]
    blob = np.random.default_rng(L).integers(0, 127, size=(L, P * info["bps"]), dtype="uint8")
    im = synth.image_spec("HH", None, L, P, tc, samples=[blob[k].tobytes() for k in range(L)])
    spec = synth.product_spec("1.1" if tc == "C*8" else "1.5", images=[im])
    files, _ = synth.build(spec)
    name = synth.file_names(spec)["img"][0]
    full = files[name]
    reclen = info["prefix"] + P * info["bps"]
    n = len(full)
    assert n == 720 + L * reclen
    pts = {0, 1, 719, 720, 721, n - 1, n}
    for k in sorted({0, 1, L // 2, L - 2, L - 1}):
        base = 720 + k * reclen
        pts |= {base - 1, base, base + 1, base + 12, base + info["prefix"] - 1, base + info["prefix"], base + info["prefix"] + 1, base + info["prefix"] + (reclen - info["prefix"]) // 2, base + reclen - 2}
    for p2 in range(20, 28):  # block-size multiples
        pts |= {2**p2 - 1, 2**p2, 2**p2 + 1}
    cuts = sorted(c for c in pts if 0 <= c <= n)
    fails, outcomes = [], {}
    with harness.Product(files, "mcfs") as prod:
        for rpc in case["rpcs"]:
            for cut in cuts:
                prod.put(name, full[:cut])
                kw = {"records_per_chunk": rpc} if rpc else {}
                what = f"{tc} {L}x{P} ({n} bytes) cut at {cut} rpc={rpc or 'default'}"
                try:
                    tree = prod.open(use_cache=False, **kw)
                except BaseException as e:
                    out = f"raises:{type(e).__name__}"
                else:
                    var = tree["imagery/HH/data"]
                    try:
                        vals = np.asarray(var.values)
                        whole = tuple(var.shape) == (L, P) and vals.shape == (L, P) and vals.view("uint8").reshape(L, -1)[:: max(L // 7, 1)].tobytes() == blob.view(">u2" if tc == "IU2" else ">f4").astype("=u2" if tc == "IU2" else "=f4").view("uint8").reshape(L, -1)[:: max(L // 7, 1)].tobytes()
                        out = "returned-complete" if whole else "returned-wrong"
                    except BaseException as e:
                        out = "returned-unloadable"
                outcomes[out] = outcomes.get(out, 0) + 1
                bad = (cut < n and not out.startswith("raises")) or (cut == n and out != "returned-complete")
                if bad:
                    f = {"sig": {"kind": "large-cut-not-noticed" if cut < n else "large-intact-fails", "out": out}, "detail": f"{what}: {out}", "case": {**case, "fn": "execute_large"}}
                    if core.jkey(f["sig"]) not in {core.jkey(x["sig"]) for x in fails}:
                        fails.append(f)
        prod.put(name, full)
    return {"ok": not fails, "failures": fails, "outcome": "+".join(sorted(outcomes)), "nontrivial": True, "n": len(cuts) * len(case["rpcs"]), "hist": outcomes}


def execute_after_intact(case):
    """the intact product was opened earlier in the same process; then a file is cut short in place, optionally with its
    modification time preserved (restore of a partial copy, coarse timestamps): the next open must still notice"""
    tc, rpc = case["type"], case["rpc"]
    spec, files = make_product(tc)
    names = synth.file_names(spec)
    target = {"img": names["img"][0], "led": names["led"], "vol": names["vol"]}[case["file"]]
    full = files[target]
    fails, outcomes = [], {}
    with harness.Product(files, case["fs"]) as prod:
        for cut in case["cuts"]:
            prod.put(target, full)
            t = prod.open(records_per_chunk=rpc, use_cache=False)
            t[f"imagery/{harness.group_name(spec['images'][0]['pol'], spec['images'][0]['scan'])}/data"].values
            prod.put(target, full[:cut], keep_mtime=case["keep_mtime"])
            out, f = judge(prod, spec, rpc, False, None, f"{case['file']} cut at {cut}/{len(full)} after an intact open (mtime {'kept' if case['keep_mtime'] else 'new'}) rpc={rpc} {tc} on {case['fs']}")
            if out == "returned-complete":
                f = {"sig": {"kind": "cut-not-noticed-after-intact-open", "file": case["file"]}, "detail": f"{case['file']} cut at {cut}/{len(full)} after an intact open in the same process (mtime {'kept' if case['keep_mtime'] else 'new'}, {case['fs']}): open and full load succeeded"}
            outcomes[out] = outcomes.get(out, 0) + 1
            if f:
                f["case"] = {**case, "fn": "execute_after_intact", "cuts": [cut]}
                if core.jkey(f["sig"]) not in {core.jkey(x["sig"]) for x in fails}:
                    fails.append(f)
    return {"ok": not fails, "failures": fails, "outcome": "+".join(sorted(outcomes)), "nontrivial": True, "n": len(case["cuts"]), "hist": outcomes}


def execute_missing(case):
    tc = case["type"]
    spec, files = make_product(tc)
    names = synth.file_names(spec)
    victims = {"summary": "summary.txt", "vol": names["vol"], "led": names["led"], "img0": names["img"][0], "img1": names["img"][1], "trl": names["trl"]}
    victim = victims[case["missing"]]
    import time

    slept = []
    real_sleep = time.sleep
    time.sleep = lambda x=0: slept.append(float(x))  # waits are recorded, not served: "terminates promptly" without waiting it out
    try:
        return _missing(case, spec, files, victim, slept)
    finally:
        time.sleep = real_sleep


def _missing(case, spec, files, victim, slept):
    with harness.Product(files, case["fs"]) as prod:
        prod.remove(victim)
        try:
            tree = prod.open(records_per_chunk=case["rpc"], use_cache=case["use_cache"])
            for i, im in enumerate(spec["images"]):
                tree[f"imagery/{harness.group_name(im['pol'], im['scan'])}/data"].values
            out = "returned"
        except OSError as e:
            out = f"raises-oserror:{type(e).__name__}"
        except BaseException as e:
            out = f"raises-other:{type(e).__name__}"
    if case["missing"] == "trl":
        ok = out == "returned"
        detail = f"trailer missing (never read) but open gives {out}"
    else:
        ok = out.startswith("raises-oserror")
        detail = f"{victim} missing on {case['fs']} use_cache={case['use_cache']}: {out}, expected an OSError/FileNotFoundError"
    if ok and sum(slept) > 5:
        return {"ok": False, "sig": {"kind": "not-prompt", "missing": case["missing"]}, "detail": f"{victim} missing on {case['fs']}: the open waits {sum(slept):.0f} s ({len(slept)} sleeps) before it reports the missing file", "outcome": "not-prompt", "nontrivial": True}
    return {"ok": ok, "sig": {"kind": "missing-file", "missing": case["missing"], "out": out.split(":")[0]}, "detail": detail, "outcome": out, "nontrivial": True}


def boundaries(tc, which, stride):
    """cut lengths: record and field boundaries +-1 from the layout tables, plus a stride"""
    spec, files = make_product(tc)
    names = synth.file_names(spec)
    full = files[{"led": names["led"], "vol": names["vol"], "img": names["img"][0]}[which]]
    n = len(full)
    pts = set(range(0, n + 1, stride)) | {0, 1, n - 1, n}
    if which == "led":
        off = 0
        ld = spec["leader"]
        recs = [("led.file_descriptor", 720), ("led.dataset_summary", 4096)] + [("led.map_projection", 1620)] * ld["n_mp"] + [("led.platform_position", 4680)]
        for lay, size in recs:
            for f in synth.layout(lay).fields:
                pts |= {off + f["off"] + d for d in (-1, 0, 1)}
            off += size
        pts |= {off + 16 + 120 * k + d for k in range(ld["n_att"] + 1) for d in (-1, 0, 1)}
        off += ld["att_len"]
        for lay, size in [("led.radiometric_data", 9860)]:
            for f in synth.layout(lay).fields:
                pts |= {off + f["off"] + d for d in (-1, 0, 1)}
            off += size
        pts |= {off + d for d in (-1, 0, 1)}
        off += 1620
        for fl in ld["fac_len"]:
            pts |= {off + d for d in (-1, 0, 1)} | {off + 66 + d for d in (-1, 0, 1)}
            off += fl
        for f in synth.layout("led.facility_related_data_5").fields:
            pts |= {off + f["off"] + d for d in (-1, 0, 1)}
        off += 5000
        assert off == n, (off, n)
    return sorted(p for p in pts if 0 <= p <= n)


def chunks(seq, size):
    seq = list(seq)
    return [seq[i : i + size] for i in range(0, len(seq), size)]


def plan(tier):
    cases = []
    for tc in ("IU2", "C*8"):
        spec, files = make_product(tc)
        names = synth.file_names(spec)
        n_img = len(files[names["img"][0]])
        n_led = len(files[names["led"]])
        n_vol = len(files[names["vol"]])
        info = synth.TYPE_INFO[tc]
        for rpc in RPCS:
            # every cut through the narrow seam (both tiers)
            for c in chunks(range(0, n_img + 1), 400):
                cases.append({"fn": "execute_seam", "type": tc, "rpc": rpc, "file": "img", "cuts": c})
            # through open_alos2: every cut (thorough) / record+field boundaries +-1 and every 16th byte (quick)
            if tier == "thorough":
                cuts = range(0, n_img + 1)
            else:
                info = synth.TYPE_INFO[tc]
                reclen = info["prefix"] + 3 * info["bps"]
                pts = set(range(0, n_img + 1, 16)) | {0, n_img}
                for k in range(5):
                    for base in (720 + k * reclen, 720 + k * reclen + info["prefix"], 720 + k * reclen + 12):
                        pts |= {base - 1, base, base + 1}
                cuts = sorted(p for p in pts if 0 <= p <= n_img)
            for c in chunks(cuts, 40):
                cases.append({"fn": "execute", "type": tc, "rpc": rpc, "file": "img", "cuts": c})
            if rpc in (2, 1024):  # the same cuts on an async fsspec implementation (http / s3 / gcs are of that kind)
                for c in chunks(cuts, 40):
                    cases.append({"fn": "execute", "type": tc, "rpc": rpc, "file": "img", "cuts": c, "fs": "amcfs"})
        # the SECOND image cut (its geometry equal to / different from the first image's)
        for same in (True, False):
            sp2, f2 = make_product(tc, same=same)
            n2 = len(f2[synth.file_names(sp2)["img"][1]])
            rl2 = info["prefix"] + (3 if same else 2) * info["bps"]
            cuts2 = sorted({c for k in range(5) for c in (720 + k * rl2 - 1, 720 + k * rl2, 720 + k * rl2 + 1, 720 + k * rl2 + info["prefix"]) if 0 <= c <= n2} | set(range(0, n2 + 1, 61 if tier == "quick" else 7)) | {n2 - 1, n2})
            for rpc in (1, 2, 1024):
                for c in chunks(cuts2, 40):
                    cases.append({"fn": "execute", "type": tc, "rpc": rpc, "file": "img1", "cuts": c, "same": same})
        led_cuts = range(0, n_led + 1) if tier == "thorough" else boundaries(tc, "led", 256)
        for c in chunks(led_cuts, 40):
            cases.append({"fn": "execute", "type": tc, "rpc": 2, "file": "led", "cuts": c})
        vol_cuts = range(0, n_vol + 1) if tier == "thorough" else sorted(set(range(0, n_vol + 1, 8)) | {k * 360 + d for k in range(7) for d in (-1, 0, 1) if 0 <= k * 360 + d <= n_vol})
        for c in chunks(vol_cuts, 40):
            cases.append({"fn": "execute", "type": tc, "rpc": 2, "file": "vol", "cuts": c})
        for missing in ("summary", "vol", "led", "img0", "img1", "trl"):
            for use_cache in (True, False):
                for fs in ("mcfs", "local", "memory", "amcfs"):
                    for rpc in (1, 1024):
                        cases.append({"fn": "execute_missing", "type": tc, "missing": missing, "use_cache": use_cache, "fs": fs, "rpc": rpc})
    # record lengths of 720 / 360 / 240 bytes (the descriptor length is a multiple of them): cuts at and around every record boundary
    for tc, P in (("IU2", 264), ("IU2", 84), ("IU2", 24), ("C*8", 22)):
        reclen = synth.TYPE_INFO[tc]["prefix"] + P * synth.TYPE_INFO[tc]["bps"]
        n = 720 + 4 * reclen
        cuts = sorted({c for k in range(5) for c in range(720 + k * reclen - 3, 720 + k * reclen + 4) if 0 <= c <= n} | set(range(0, n + 1, 97)) | {720 + 3 * reclen + reclen // 2, n - 1, n})
        for rpc in RPCS:
            cases.append({"fn": "execute_seam", "type": tc, "rpc": rpc, "file": "img", "cuts": cuts, "P": P})
    for tc in ("IU2", "C*8"):
        spec, files = make_product(tc)
        names = synth.file_names(spec)
        for which, key in (("img", names["img"][0]), ("led", names["led"]), ("vol", names["vol"])):
            n = len(files[key])
            cuts = sorted({0, 1, 720, n // 2, n - 1} | ({720 + k * (n - 720) // 4 for k in range(1, 4)} if which == "img" else set()))
            for fs in ("local", "mcfs"):
                for km in (True, False):
                    cases.append({"fn": "execute_after_intact", "type": tc, "rpc": 2 if which == "img" else 1024, "file": which, "fs": fs, "keep_mtime": km, "cuts": [c for c in cuts if c < n]})
    for tc, L, P in (("IU2", 64, 150000), ("C*8", 40, 60000), ("IU2", 600, 60000)) if tier == "quick" else (("IU2", 64, 150000), ("C*8", 40, 60000), ("IU2", 600, 60000), ("C*8", 1100, 9000), ("IU2", 5000, 64)):
        for rpcs in ((None, 8), (64, 4096)):
            cases.append({"fn": "execute_large", "type": tc, "L": L, "P": P, "rpcs": list(rpcs)})
    return cases


def run(res, tier, seed):
    res.rule = (
        "every truncation length 0..size of a 4x3 image x rpc{1,2,4,5,1024} x type through sar_image.open_image, and through"
        " open_alos2 at every length (thorough) or all record/field boundaries +-1 + every 16th byte (quick), also on an async fsspec filesystem; leader and"
        " volume directory cut at every length (thorough) / every layout field boundary +-1 + stride (quick); every single"
        " missing file x use_cache x 3 filesystems (waits requested through time.sleep are recorded, more than 5 s before the error is not prompt); the second image cut (geometry equal to / different from the first image's); images whose record length is 720 / 360 / 240 bytes cut around every record boundary; every file cut in place after an intact open in the same process (modification time kept / new; local and mcfs); images of 19 / 19 / 72 MB cut at the boundaries +-1 of the first, middle and last records, inside their" " prefixes and pixel data and at every power of two 2^20..2^27 +-1, x rpc {default, 8, 64, 4096}. A case is a batch of cuts of one file; all are non-trivial (each cut is"
        " a distinct byte length and is executed on the real code)."
    )
    res.assumptions = ["a truncated file is modelled as a shorter file (reads return fewer bytes), as on local and object stores", "promptness = number of filesystem events <= intact open (deterministic); wall time is not an oracle"]
    n = 0
    hist = {}
    by_fn = {}
    for c in plan(tier):
        by_fn.setdefault(c["fn"], []).append(c)
    order = 0
    for fn, cases in by_fn.items():
        for idx, case, out in core.pool_map(__name__, fn, cases, chunksize=1):
            small = {k: v for k, v in case.items() if k != "cuts"}
            if "cuts" in case:
                small["cuts"] = [case["cuts"][0], "..", case["cuts"][-1]]
            res.record(small, out, order=order)
            order += 1
            n += out.get("n", 1)
            for k, v in out.get("hist", {out["outcome"]: 1}).items():
                hist[k] = hist.get(k, 0) + v
    res.extra["faults_injected"] = n
    res.extra["fault_outcomes"] = hist
