"""C12 - well-typed tree (DESIGN §4 C12).

Products of levels 1.1 / 1.5 / 3.1 x map projection present/absent x 1..3
images, plus blank-field and extreme-value deviations; every variable must
advertise a real NumPy dtype of an allowed kind and a shape equal (up to byte
order) to what loading yields - also for a selection alphabet on the image
data; every attribute must be a plain scalar / string / nested list or tuple;
nbytes and repr must work on the tree and on every node.
"""
import numpy as np

from mc import core, harness, synth, treecheck
from mc.checks import c02

ID = "C12"
LEVEL = "exploration"

ALLOWED_KINDS = set("biufcMmUS")


def plain(v, depth=0):
    if isinstance(v, (bool, int, float, complex, str, np.bool_, np.integer, np.floating, np.complexfloating)):
        return True
    if isinstance(v, (list, tuple)) and depth < 6:
        return all(plain(x, depth + 1) for x in v)
    return False


def selections(L, P):
    rows = [["s", None, None, None], ["i", 0], ["i", -1], ["s", 1, None, None], ["s", None, None, 2], ["s", None, None, -1], ["s", 0, 0, None], ["a", [L - 1, 0]], ["a", [0, 0]], ["m", [k % 2 == 0 for k in range(L)]]]
    cols = [["s", None, None, None], ["i", 0], ["i", -1], ["s", None, None, -1], ["a", [P - 1, 0]], ["m", [k % 2 == 1 or P == 1 for k in range(P)]], ["s", 1, 2, None], ["a", [P - 1]], ["s", None, None, P], ["s", 0, 0, None], ["s", None, 0, None], ["s", P, None, None], ["s", 1, 1, None]]
    vec = [["vec", [0, L - 1], [0, P - 1]], ["vec", [L - 1], [0]], ["vec", [0, 0, L - 1], [P - 1, 0, 0]]]
    return [["isel", r, c] for r in rows for c in cols] + vec


def plan(tier):
    cases = []
    for level in ("1.1", "1.5", "3.1"):
        for n_mp in (0, 1):
            for k in (1, 2, 3):
                imgs = [[pol, None, 2 + i, 3] for i, pol in enumerate(["HH", "HV", "VV"][:k])]
                cases.append({"spec": {"level": level, "images": imgs, "leader": {"n_mp": n_mp}}, "devs": [], "label": f"{level} mp={n_mp} images={k}"})
        for scan in ("F1", "B2"):
            cases.append({"spec": {"level": level, "images": [["HH", scan, 2, 3], ["HV", scan, 3, 2]]}, "devs": [], "label": f"{level} images named -{scan}"})
        # extreme multiplicities of the variable-length records (single point / single channel, maxima)
        for n_att, n_chan in ((1, 1), (1, 16), (136, 1), (2, 9)):
            cases.append({"spec": {"level": level, "images": [["HH", None, 1, 1]], "leader": {"n_att": n_att, "n_chan": n_chan}}, "devs": [], "label": f"{level} attitude points={n_att} channels={n_chan}"})
        # every nullable ASCII field of the big records blanked at once, and optional header fields blank
        devs = []
        for inst, lay in (("dataset_summary", "led.dataset_summary"), ("platform_position", "led.platform_position"), ("radiometric_data", "led.radiometric_data"), ("facility_related_data_5", "led.facility_related_data_5")):
            from mc.checks import c20

            for f in synth.layout(lay).fields:
                if f["kind"] in "AIFC" and not c20.required(f) and not c20.padding_like(f["name"]):
                    devs.append(["led", inst, f["key"], {"hex": (b" " * f["w"]).hex()}])
        cases.append({"spec": {"level": level, "images": [["HH", None, 2, 2]]}, "devs": devs, "label": f"{level} all nullable leader fields blank"})
        from mc.checks import c03

        cases.append({"spec": {"level": level, "images": [["HH", None, 2, 2]]}, "devs": [["img0", "file_descriptor", k, {"hex": v[0].hex()}] for k, v in c03.HEADER.items()], "label": f"{level} optional header fields blank"})
        lay = synth.layout(synth.TYPE_INFO["C*8" if level == "1.1" else "IU2"]["rec"])
        devs = [["img0", "line", f["key"], {"hex": "ff" * f["w"]}, 0] for f in lay.fields if f["kind"] == "B" and "enum" not in f and not f.get("flag") and not f["name"].startswith("preamble.") and f["name"] != "sar_image_data_line_number" and f["name"] not in synth.LINE_CONSTANTS]
        cases.append({"spec": {"level": level, "images": [["HH", None, 2, 2]]}, "devs": devs, "label": f"{level} every 32-bit line field at its maximum on line 0"})
        # fields the reader reports once per file (flags, ids, codes) that nevertheless change from line to line
        consts = [f for f in lay.fields if f["name"] in synth.LINE_CONSTANTS and not f["name"].startswith("preamble.")]
        for f in consts:
            codes = sorted(f["enum"].values()) if "enum" in f else [0, 1]
            if len(codes) < 2:
                continue
            devs = [["img0", "line", f["key"], {"hex": int(codes[k % len(codes)]).to_bytes(f["w"], "big").hex()}, k] for k in range(3)]
            cases.append({"spec": {"level": level, "images": [["HH", None, 3, 2]]}, "devs": devs, "label": f"{level} per-file constant {f['key']} differs between lines"})
    return cases


def execute(case):
    import xarray as xr

    spec = treecheck.spec_from_case(case)
    files, _ = synth.build(spec)
    fails = []

    def bad(kind, detail, **sig):
        s = {"kind": kind, **sig}
        if core.jkey(s) not in {core.jkey(f["sig"]) for f in fails}:
            fails.append({"sig": s, "detail": f"{case['label']}: {detail}", "case": case})

    n_vars = n_attrs = n_sel = 0
    with harness.Product(files, "mcfs") as prod:
        try:
            tree = prod.open(records_per_chunk=2)
        except Exception as e:
            return {"ok": False, "failures": [{"sig": {"kind": "raises", "exc": type(e).__name__}, "detail": f"{case['label']}: open raises {type(e).__name__}: {e}", "case": case}], "outcome": "raises"}
        for what, fn in (("tree.nbytes", lambda: tree.nbytes), ("repr(tree)", lambda: repr(tree)), ("str(tree)", lambda: str(tree))):
            try:
                fn()
            except Exception as e:
                bad("size-or-repr-fails", f"{what} raises {type(e).__name__}: {str(e)[:80]}", what=what)
        for node in tree.subtree:
            try:
                repr(node)
                ds = node.to_dataset(inherit=False)
                ds.nbytes
                repr(ds)
            except Exception as e:
                bad("size-or-repr-fails", f"node {node.path}: {type(e).__name__}: {str(e)[:80]}", what="node")
                continue
            for k, v in node.attrs.items():
                n_attrs += 1
                if not plain(v):
                    bad("opaque-attribute", f"{node.path}@{k} = {type(v).__name__} {str(v)[:60]}", leaf=f"{node.path}@{k}")
            for name, var in ds.variables.items():
                n_vars += 1
                leaf = f"{node.path}:{name}"
                dt, shape = var.dtype, tuple(var.shape)
                if not isinstance(dt, np.dtype):
                    bad("dtype-not-numpy", f"{leaf} advertises dtype {dt!r} ({type(dt).__name__})", leaf=name)
                    continue
                if dt.kind not in ALLOWED_KINDS:
                    bad("dtype-kind", f"{leaf} has dtype {dt} (kind {dt.kind})", leaf=name)
                for ak, av in var.attrs.items():
                    if not plain(av):
                        bad("opaque-attribute", f"{leaf} attribute {ak} = {type(av).__name__}", leaf=name)
                try:
                    vals = np.asarray(var.values)
                except Exception as e:
                    bad("load-fails", f"{leaf}: {type(e).__name__}: {str(e)[:80]}", leaf=name)
                    continue
                if vals.shape != shape or vals.dtype.newbyteorder("=") != dt.newbyteorder("="):
                    bad("declared-vs-loaded", f"{leaf}: declared {dt}{shape}, loaded {vals.dtype}{vals.shape}", leaf=name)
                if vals.dtype.kind == "O":
                    bad("object-data", f"{leaf}: loaded object array, first element {str(vals.reshape(-1)[:1])[:80]}", leaf=name)
        for i, im in enumerate(spec["images"]):
            da = tree[f"imagery/{harness.group_name(im['pol'], im['scan'])}/data"]
            for op in selections(im["lines"], im["pixels"]):
                try:
                    sel = c02.apply(da, op)
                    dshape, ddtype = tuple(sel.shape), sel.dtype
                except Exception:
                    continue  # selection failures are C02's subject
                try:
                    vals = np.asarray(sel.values)
                except Exception as e:
                    # all selections of this alphabet are valid and none is affected by the xarray findings D13a-c:
                    # a variable that advertises a shape but cannot be loaded violates the declared-vs-loaded clause
                    bad("declared-but-unloadable-selection", f"{op}: declared {ddtype}{dshape}, loading raises {type(e).__name__}: {str(e)[:80]}", cls=str(op[1][0])[0] + str(op[2][0])[0])
                    continue
                n_sel += 1
                if vals.shape != dshape or not isinstance(ddtype, np.dtype) or vals.dtype.newbyteorder("=") != ddtype.newbyteorder("="):
                    bad("declared-vs-loaded-selection", f"{op}: declared {ddtype}{dshape}, loaded {vals.dtype}{vals.shape}", cls=str(op[1][0])[0] + str(op[2][0])[0])
    return {"ok": not fails, "failures": fails, "outcome": "ok" if not fails else fails[0]["sig"]["kind"], "nontrivial": True, "n_vars": n_vars, "n_attrs": n_attrs, "n_sel": n_sel}


def execute_large(case):
    """declared vs loaded shape / dtype of selections on realistically sized images (size-dependent read paths)"""
    tc, L, P, rpc = case["type"], case["L"], case["P"], case["rpc"]
    rng = np.random.default_rng(L)
    word = ">u2" if tc == "IU2" else ">u4"
    m = rng.integers(0, 2**16 if tc == "IU2" else 2**30, size=(L, P if tc == "IU2" else 2 * P), dtype="uint16" if tc == "IU2" else "uint32").astype(word)
    spec = synth.product_spec("1.1" if tc == "C*8" else "1.5", images=[synth.image_spec("HH", None, L, P, tc, samples=[m[k].tobytes() for k in range(L)])])
    files, _ = synth.build(spec)
    fails, n = [], 0
    with harness.Product(files, "mcfs") as prod:
        tree = prod.open(**({"records_per_chunk": rpc} if rpc else {}))
        da = tree["imagery/HH/data"]
        want_dtype = np.dtype("uint16" if tc == "IU2" else "complex64")
        sels = [("full", slice(None)), ("first half", slice(0, L // 2)), ("misaligned bulk", slice(min(50, L // 3), L - min(50, L // 3))), ("line", L // 2), ("every 3rd", slice(None, None, 3)), ("last 3", slice(L - 3, None)), ("all but the first", slice(1, None)), ("empty", slice(5, 5)), ("backwards", slice(None, None, -1))]
        for label, sel in sels:
            lazy = da.isel(rows=sel)
            dshape, ddtype = tuple(lazy.shape), lazy.dtype
            exp_shape = np.empty((L, 0))[sel].shape[:-1] + (P,)
            try:
                vals = np.asarray(lazy.values)
            except Exception as e:
                fails.append({"sig": {"kind": "large-unloadable", "sel": label}, "detail": f"{tc} {L}x{P} rpc={rpc or 'default'} '{label}': declared {ddtype}{dshape}, loading raises {type(e).__name__}: {str(e)[:80]}", "case": {**case, "fn": "execute_large"}})
                continue
            n += 1
            if vals.shape != dshape or dshape != exp_shape or vals.dtype != ddtype or ddtype != want_dtype:
                fails.append({"sig": {"kind": "large-declared-vs-loaded", "sel": label}, "detail": f"{tc} {L}x{P} rpc={rpc or 'default'} '{label}': declared {ddtype}{dshape}, loaded {vals.dtype}{vals.shape}, header says {exp_shape}", "case": {**case, "fn": "execute_large"}})
        try:
            tree.nbytes
        except Exception as e:
            fails.append({"sig": {"kind": "large-nbytes"}, "detail": f"tree.nbytes raises {type(e).__name__}", "case": {**case, "fn": "execute_large"}})
    return {"ok": not fails, "failures": fails[:3], "outcome": "large-ok" if not fails else fails[0]["sig"]["kind"], "nontrivial": True, "n_sel": n}


def execute_sequence(case):
    """two products opened one after the other in one process (a level 1.1 and a level 1.5 image whose line records are equally
    long, 544 + 8 P11 == 192 + 2 P15, and images of equal pixel count but different sample type), in both orders: each tree's
    declared shape / dtype still equal what loads - whatever the library memoises between opens must not leak into the typing"""
    L, rpc, p11 = case["L"], case["rpc"], case["P11"]
    order = [("C*8", p11), ("IU2", 176 + 4 * p11 if case["pair"] == "reclen" else p11)]
    if case["reverse"]:
        order.reverse()
    fails, n = [], 0
    for k, (tc, P) in enumerate(order):
        spec = synth.product_spec("1.1" if tc == "C*8" else "1.5", images=[synth.image_spec("HH", None, L, P, tc)])
        files, _ = synth.build(spec)
        want_dtype = np.dtype("uint16" if tc == "IU2" else "complex64")
        with harness.Product(files, case["fs"]) as prod:
            try:
                da = prod.open(records_per_chunk=rpc)["imagery/HH/data"]
                for label, sel in (("full", slice(None)), ("line", L - 1), ("every 2nd", slice(None, None, 2)), ("empty", slice(1, 1))):
                    lazy = da.isel(rows=sel)
                    exp_shape = np.empty((L, 0))[sel].shape[:-1] + (P,)
                    vals = np.asarray(lazy.values)
                    n += 1
                    if vals.shape != tuple(lazy.shape) or tuple(lazy.shape) != exp_shape or vals.dtype != lazy.dtype or lazy.dtype != want_dtype:
                        fails.append({"sig": {"kind": "sequence-declared-vs-loaded", "type": tc}, "detail": f"{tc} {L}x{P} rpc={rpc} opened as number {k + 1} of {[t for t, _ in order]} '{label}': declared {lazy.dtype}{tuple(lazy.shape)}, loaded {vals.dtype}{vals.shape}, header says {exp_shape}", "case": {**case, "fn": "execute_sequence"}})
                        break
            except Exception as e:
                fails.append({"sig": {"kind": "sequence-unloadable", "type": tc, "exc": type(e).__name__}, "detail": f"{tc} {L}x{P} rpc={rpc} opened as number {k + 1} of {[t for t, _ in order]}: {type(e).__name__}: {str(e)[:100]}", "case": {**case, "fn": "execute_sequence"}})
    return {"ok": not fails, "failures": fails[:3], "outcome": "sequence-ok" if not fails else fails[0]["sig"]["kind"], "nontrivial": True, "n_sel": n}


LARGE = [("IU2", 1300, 40000, 64), ("IU2", 1300, 40000, None), ("C*8", 1200, 2000, 64), ("C*8", 1200, 2000, None), ("IU2", 5120, 4, None), ("IU2", 4096, 3, 4096), ("IU2", 2500, 8, 100), ("IU2", 2500, 8, 4), ("C*8", 1200, 3, 2), ("C*8", 300, 40000, 10)]


def run(res, tier, seed):
    res.rule = (
        "levels {1.1,1.5,3.1} x map projection {0,1} x {1,2,3} images + per level: 4 extreme point/channel counts, all nullable leader fields blank, optional header"
        " fields blank, every 32-bit line field at 2^32-1; in each tree every node, variable and attribute is inspected, every"
        " variable loaded, and 90 selections per image compared before/after load; plus 9 selections each on 8 realistically sized images (1200..5120 lines, up to 104 MB, request sizes 0.3..96 MB); plus 144 two-product sequences in one process (a 1.1 and a 1.5 image of equal record length, or of equal pixel count; L {3,5} x rpc {1,2,1024} x P11 {1,2,8} x both orders x mcfs|local), 4 selections on each. All cases are distinct products."
    )
    res.assumptions = ["allowed dtype kinds: b,i,u,f,c,M,m,U,S; NumPy scalars count as plain scalars"]
    nv = na = ns = 0
    for idx, case, out in core.pool_map(__name__, "execute", plan(tier), chunksize=1):
        res.record({"label": case["label"], "spec": case["spec"], "n_devs": len(case["devs"])}, out, order=idx)
        nv += out.get("n_vars", 0)
        na += out.get("n_attrs", 0)
        ns += out.get("n_sel", 0)
    for idx, case, out in core.pool_map(__name__, "execute_large", [{"type": tc, "L": L, "P": P, "rpc": rpc} for tc, L, P, rpc in LARGE], chunksize=1):
        res.record({**case, "fn": "execute_large"}, out, order=10**6 + idx)
        ns += out.get("n_sel", 0)
    seqs = [{"L": L, "rpc": rpc, "P11": p11, "pair": pair, "reverse": rev, "fs": fs} for L in (3, 5) for rpc in (1, 2, 1024) for p11 in (1, 2, 8) for pair in ("reclen", "pixels") for rev in (False, True) for fs in ("mcfs", "local")]
    for idx, case, out in core.pool_map(__name__, "execute_sequence", seqs, chunksize=4):
        res.record({**case, "fn": "execute_sequence"}, out, order=2 * 10**6 + idx)
        ns += out.get("n_sel", 0)
    res.extra.update({"variables_inspected": nv, "attributes_inspected": na, "selections_compared": ns})
