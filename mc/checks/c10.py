"""C10 - opening is a pure function of the product (DESIGN §4 C10).

Explicit-state search over operation histories on the real code.
Operations: open x {use_cache} x {create_cache} x rpc {1,2,1024} (12), open with
a shared minimal options dict, open with no options at all (local products),
CLI cache creation next to image i at rpc {1,4096}, delete user-cache files,
delete adjacent index files.  (1) BFS to closure over canonical states (cache
file sets + contents + digest of the library's process-level mutable state);
(2) every history up to depth 2 executed literally from a clean slate, and up
to depth 3 (quick, one product) / 3-4 (thorough) as a tree walk that restores
only the on-disk state.  At every step: returned tree == pristine uncached tree
for that step's rpc; caller's option dicts and the functions' default objects
unchanged; product files bit-identical; writes only *.index under the user
cache dir and only when asked (CLI steps: exactly their target).
"""
import copy
import hashlib
import os
import pathlib
import shutil
import sys

from mc import cachelab, core, env, harness, synth, treesnap
from mc.checks import c07

ID = "C10"
LEVEL = "model_checking"

RPCS = (1, 2, 1024)


def ops_for(kind, reduced=False):
    rpcs = (2,) if reduced else RPCS
    ops = [["open", uc, cc, rpc] for uc in (True, False) for cc in (False, True) for rpc in rpcs]
    ops.append(["open-shared"])
    if kind == "local":
        ops.append(["open-noopts"])
    ops += [["cli", i, rpc] for i in (0, 1) for rpc in ((4096,) if reduced else (1, 4096))]
    ops += [["rm-local"], ["rm-adjacent"]]
    return ops


LINK = b"\x00symlink:"


class Lab:
    """one product + the pristine reference trees, inside one long-lived worker"""

    def __init__(self, level, kind):
        env.import_lib()
        env.wipe_cache()
        self.level, self.kind = level, kind
        # images of 22..23 lines whose per-line values are piecewise constant (what a size-optimised index folds)
        self.spec, self.files = c07.product_files(level, "steps")
        self.names = synth.file_names(self.spec)["img"]
        self.prod = harness.Product(self.files, kind, tag=f"c10_{level.replace('.', '')}_{kind}_{os.getpid()}")
        self.cdir = cachelab.user_cache_dir(self.prod.mapper_root())
        self.refs = {}
        for rpc in RPCS:
            self.refs[rpc] = treesnap.snapshot(self.prod.open(use_cache=False, records_per_chunk=rpc))
        self.product_digest = self.digest_product()
        self.shared = self.prod.options()
        self.shared_copy = copy.deepcopy(self.shared)
        self.proc0 = process_digest()
        self.steps = 0
        self.proc_changes = []

    def digest_product(self):
        listing = {k: v for k, v in self.prod.listing().items() if not k.endswith(".index")}
        return cachelab.listing_digest(listing)

    # --- on-disk cache state ------------------------------------------------
    def capture(self):
        st = {"local": {}, "adjacent": {}}
        if self.cdir.exists():
            for p in self.cdir.iterdir():
                # an entry may be a symbolic link (possibly dangling): part of the state as such
                st["local"][p.name] = LINK + os.readlink(p).encode() if p.is_symlink() else p.read_bytes()
        for k, v in self.prod.listing().items():
            if k.endswith(".index"):
                st["adjacent"][k] = v
        return st

    def restore(self, st):
        env.wipe_cache()
        for k in [k for k in self.prod.listing() if k.endswith(".index")]:
            self.prod.remove(k)
        if st["local"]:
            self.cdir.mkdir(parents=True, exist_ok=True)
            for k, v in st["local"].items():
                if v.startswith(LINK):
                    os.symlink(v[len(LINK) :].decode(), self.cdir / k)
                else:
                    (self.cdir / k).write_bytes(v)
        for k, v in st["adjacent"].items():
            self.prod.put(k, v)

    def canon(self, st=None):
        st = st or self.capture()
        key = (
            tuple(sorted((k, hashlib.sha1(v).hexdigest()[:10]) for k, v in st["local"].items())),
            tuple(sorted((k, hashlib.sha1(v).hexdigest()[:10]) for k, v in st["adjacent"].items())),
            process_digest(),
        )
        return key

    # --- one transition -----------------------------------------------------
    def apply(self, op):
        """execute op on the real code; -> list of (kind, detail) violations"""
        self.steps += 1
        bad = []
        before = self.capture()
        before_local = set(before["local"])
        lib = env.import_lib()
        wrote_expected = set()
        with cachelab.recording():
            try:
                if op[0] == "open":
                    _, uc, cc, rpc = op
                    opts = self.prod.options(use_cache=uc, create_cache=cc, records_per_chunk=rpc)
                    keep = copy.deepcopy(opts)
                    tree = lib.open_alos2(self.prod.url, backend_options=opts)
                    if opts != keep:
                        bad.append(("caller-options-mutated", f"backend_options changed from {keep} to {opts}"))
                    self.compare(tree, rpc, bad)
                    if cc:
                        wrote_expected = {str(self.cdir / f"{n}.index") for n in self.names}
                elif op[0] == "open-shared":
                    tree = lib.open_alos2(self.prod.url, backend_options=self.shared)
                    if self.shared != self.shared_copy:
                        bad.append(("caller-options-mutated", f"shared options dict changed to {self.shared}"))
                        self.shared = copy.deepcopy(self.shared_copy)
                    self.compare(tree, 1024, bad)
                elif op[0] == "open-noopts":
                    tree = lib.open_alos2(self.prod.url)
                    self.compare(tree, 1024, bad)
                elif op[0] == "cli":
                    _, i, rpc = op
                    name = self.names[i]
                    if self.kind in ("local", "file"):
                        code = cachelab.run_cli(self.prod.dir / name, rpc=rpc)
                        wrote_expected = {str(self.prod.dir / f"{name}.index")}
                    else:
                        d = cachelab.local_copy(self.files, f"c10_{self.level}")  # stable name: the index stores the root path
                        code = cachelab.run_cli(d / name, rpc=rpc)
                        self.prod.put(f"{name}.index", (d / f"{name}.index").read_bytes())
                        shutil.rmtree(d, ignore_errors=True)
                        wrote_expected = None  # writes go to the scratch copy
                    if code != 0:
                        bad.append(("cli-fails", f"exit code {code}"))
                elif op[0] == "rm-local":
                    env.wipe_cache()
                    wrote_expected = None
                elif op[0] == "rm-adjacent":
                    for k in [k for k in self.prod.listing() if k.endswith(".index")]:
                        self.prod.remove(k)
                    wrote_expected = None
            except Exception as e:
                bad.append(("step-raises", f"{type(e).__name__}: {str(e)[:120]}"))
        events = cachelab.local_events()
        if wrote_expected is not None:
            writes = {e[1] for e in events if e[0] == "open" and any(c in e[2] for c in "wax+")}
            others = [e for e in events if e[0] in ("os.rename", "os.remove", "os.truncate", "os.rmdir")]
            # where this step may write at all: the directory of the files it was asked to produce (a temporary file
            # that is renamed into place is fine); what must be there afterwards: exactly the expected files
            allowed = {str(pathlib.Path(w).parent) for w in wrote_expected}
            stray = sorted(w for w in writes if str(pathlib.Path(w).parent) not in allowed) + [e for e in others if str(pathlib.Path(e[1]).parent) not in allowed]
            leftovers = []
            for d in allowed:
                dd = pathlib.Path(d)
                if dd == self.cdir and dd.exists():
                    leftovers += [str(q) for q in dd.iterdir() if str(q) not in wrote_expected and not (q.suffix == ".index" and q.name[: -len(".index")] in self.names)]
            if stray or leftovers:
                bad.append(("unexpected-write", f"op {op} wrote {stray[:2]} left {leftovers[:2]}"))
            if op[0] == "open" and op[2] and op[1] is False:
                missing = [w for w in wrote_expected if not pathlib.Path(w).is_file() or not any(x.startswith(str(self.cdir)) for x in writes)]
                if missing:
                    bad.append(("cache-not-written", f"create_cache=True, use_cache=False wrote {sorted(writes)}; missing {missing[:2]}"))
        if self.digest_product() != self.product_digest:
            bad.append(("product-modified", "the product files changed"))
            for k, v in self.files.items():
                self.prod.put(k, v)
        if op[0] in ("open", "open-shared", "open-noopts"):
            # opening never modifies the product directory: that includes the index files lying next to the images
            after_adj = self.capture()["adjacent"]
            if after_adj != before["adjacent"]:
                changed = sorted(k for k in set(after_adj) | set(before["adjacent"]) if after_adj.get(k) != before["adjacent"].get(k))
                bad.append(("product-directory-modified", f"op {op} changed index files in the product directory: {changed[:3]}"))
        if op[0] in ("open", "open-shared", "open-noopts") and not (op[0] == "open" and op[2]):
            after_local = set(self.capture()["local"])
            if after_local != before_local:
                bad.append(("cache-files-changed-unasked", f"user cache dir {sorted(before_local)} -> {sorted(after_local)}"))
        pd = process_digest()
        if pd != self.proc0:
            # not a verdict (an internal memo is no violation as long as every tree is right): the digest is part of the
            # canonical state, so the search goes on from the new process state; counted for the evidence
            self.proc_changes.append((op, process_diff(self.proc0_items, process_items())[:3]))
            self.proc0 = pd
        return bad

    proc0_items = None

    def compare(self, tree, rpc, bad):
        d = treesnap.diff(self.refs[rpc], treesnap.snapshot(tree))
        if d:
            leaf = d[0][0]
            bad.append(("tree-differs", f"rpc={rpc}: {treesnap.short(d, 2)}", leaf.rsplit("/", 1)[-1][:50]))

    def close(self):
        self.prod.close()
        env.wipe_cache()


def process_items():
    items = {}
    lib = sys.modules.get("ceos_alos2")
    if lib is None:
        return items
    import ceos_alos2.io as cio
    import ceos_alos2.xarray as cx

    items["open_alos2.__defaults__"] = repr(cx.open_alos2.__defaults__)
    items["io.open.__kwdefaults__"] = repr(cio.open.__kwdefaults__)
    for modname, mod in list(sys.modules.items()):
        if not modname.startswith("ceos_alos2") or ".tests" in modname or mod is None:
            continue
        for name, val in list(vars(mod).items()):
            if name.startswith("__"):
                continue
            if isinstance(val, (dict, list, set)):
                items[f"{modname}.{name}"] = hashlib.sha1(repr(val).encode()).hexdigest()[:12]
    return items


def process_digest():
    return hashlib.sha1(repr(sorted(process_items().items())).encode()).hexdigest()[:16]


def process_diff(a, b):
    a, b = a or {}, b or {}
    return [k for k in set(a) | set(b) if a.get(k) != b.get(k)]


_labs = {}


def lab(level, kind):
    key = (level, kind)
    if key not in _labs:
        for k in list(_labs):
            _labs.pop(k).close()
        _labs[key] = Lab(level, kind)
        _labs[key].proc0_items = process_items()
    return _labs[key]


def fail(op_hist, b, case):
    sig = {"kind": b[0]}
    if len(b) > 2:
        sig["leaf"] = b[2]
    return {"sig": sig, "detail": f"{case['level']} on {case['fs']} after history {op_hist}: {b[1]}", "case": {"fn": "replay", "level": case["level"], "fs": case["fs"], "history": op_hist}}


def closure(case):
    """BFS over canonical states to closure"""
    L = lab(case["level"], case["fs"])
    ops = ops_for(case["fs"])
    empty = {"local": {}, "adjacent": {}}
    L.restore(empty)
    seen = {L.canon(): []}
    frontier = [([], empty)]
    transitions, fails = 0, []
    while frontier and len(seen) <= 400:
        nxt = []
        for hist, st in frontier:
            if len(seen) > 400:  # the state space does not close (reported as closed=False): stop at once, not after the level
                break
            for op in ops:
                L.restore(st)
                for b in L.apply(op):
                    f = fail(hist + [op], b, case)
                    if core.jkey(f["sig"]) not in {core.jkey(x["sig"]) for x in fails}:
                        fails.append(f)
                transitions += 1
                new = L.capture()
                k = L.canon(new)
                if k not in seen:
                    seen[k] = hist + [op]
                    nxt.append((hist + [op], new))
        frontier = nxt
        if len(seen) > 400:
            break
    return {"ok": not fails, "failures": fails, "outcome": f"closure:{len(seen)}", "nontrivial": True, "states": len(seen), "transitions": transitions, "closed": len(seen) <= 400, "depth": max(len(h) for h in seen.values())}


def literal(case):
    """histories executed literally from a clean slate (no state restoration, no deduplication)"""
    L = lab(case["level"], case["fs"])
    ops = ops_for(case["fs"])
    fails, steps = [], 0
    for first in case["firsts"]:
        for second in ops:
            L.restore({"local": {}, "adjacent": {}})
            hist = []
            for op in (ops[first], second):
                hist.append(op)
                steps += 1
                for b in L.apply(op):
                    f = fail(list(hist), b, case)
                    if core.jkey(f["sig"]) not in {core.jkey(x["sig"]) for x in fails}:
                        fails.append(f)
    return {"ok": not fails, "failures": fails, "outcome": "literal-ok" if not fails else fails[0]["sig"]["kind"], "nontrivial": True, "states": len(case["firsts"]) * len(ops), "transitions": steps}


def walk(case):
    """all histories below one first operation up to depth D; on-disk state restored between siblings"""
    L = lab(case["level"], case["fs"])
    ops = ops_for(case["fs"], case.get("reduced", False))
    D = case["depth"]
    fails, counters = [], {"steps": 0, "hist": 0}

    def note(hist, bads):
        for b in bads:
            f = fail(list(hist), b, case)
            if core.jkey(f["sig"]) not in {core.jkey(x["sig"]) for x in fails}:
                fails.append(f)

    def rec(hist, st):
        for op in ops:
            L.restore(st)
            h = hist + [op]
            counters["steps"] += 1
            counters["hist"] += 1
            note(h, L.apply(op))
            if len(h) < D:
                rec(h, L.capture())

    L.restore({"local": {}, "adjacent": {}})
    first = ops[case["first"]]  # index into the (possibly reduced) alphabet
    note([first], L.apply(first))
    counters["steps"] += 1
    counters["hist"] += 1
    if D > 1:
        rec([first], L.capture())
    return {"ok": not fails, "failures": fails, "outcome": f"walk-d{D}-{'ok' if not fails else fails[0]['sig']['kind']}", "nontrivial": True, "states": counters["hist"], "transitions": counters["steps"]}


def replay(case):
    L = lab(case["level"], case["fs"])
    L.restore({"local": {}, "adjacent": {}})
    bads = []
    for op in case["history"]:
        bads = L.apply(op)
    return {"ok": not bads, "outcome": "ok" if not bads else bads[0][0], "detail": "; ".join(b[1] for b in bads)}


def run(res, tier, seed):
    res.rule = (
        "products {1.1, 1.5} x filesystem {local directory, mcfs}; operations: 12 opens (use_cache x create_cache x rpc{1,2,1024}),"
        " open with a shared options dict, open without options (local), 4 CLI creations, 2 deletions. (1) BFS to closure over"
        " canonical states = (user-cache files+hashes, adjacent files+hashes, digest of ceos_alos2's module-level dicts/lists and"
        " default objects); (2) all depth-2 histories literally from a clean slate (quick: 2 of the 4 combinations); (3) all"
        " histories to depth 3 restoring only the on-disk state (quick: reduced alphabet - one rpc - on two combinations; thorough:"
        " full alphabet on all four, plus depth 4 with the reduced alphabet on two). states = canonical states +"
        " histories executed, transitions = operations executed on the real code; every transition is checked."
    )
    res.assumptions = ["reference trees are computed in the worker before its first operation and guarded by the process-state digest", "index contents do not depend on the rpc at write time (observed: 16 reachable cache states per product)"]
    combos = [(lv, fs) for lv in ("1.5", "1.1") for fs in ("local", "mcfs")]
    states = transitions = 0
    closed = True
    order = 0
    jobs = [("closure", [{"fn": "closure", "level": lv, "fs": fs} for lv, fs in combos])]
    lit = []
    for lv, fs in combos if tier == "thorough" else [("1.5", "local"), ("1.1", "mcfs")]:
        n = len(ops_for(fs))
        lit += [{"fn": "literal", "level": lv, "fs": fs, "firsts": [i]} for i in range(n)]
    jobs.append(("literal", lit))
    walks = []
    if tier == "thorough":
        for lv, fs in combos:
            walks += [{"fn": "walk", "level": lv, "fs": fs, "first": i, "depth": 3} for i in range(len(ops_for(fs)))]
        for lv, fs in (("1.5", "mcfs"), ("1.1", "local")):
            walks += [{"fn": "walk", "level": lv, "fs": fs, "first": i, "depth": 4, "reduced": True} for i in range(len(ops_for(fs, True)))]
    else:
        walks += [{"fn": "walk", "level": "1.5", "fs": "local", "first": i, "depth": 3, "reduced": True} for i in range(len(ops_for("local", True)))]
        walks += [{"fn": "walk", "level": "1.1", "fs": "mcfs", "first": i, "depth": 3, "reduced": True} for i in range(len(ops_for("mcfs", True)))]
    jobs.append(("walk", walks))
    for fn, cases in jobs:
        for idx, case, out in core.pool_map(__name__, fn, cases, chunksize=1):
            res.record(case, out, order=order)
            order += 1
            states += out["states"]
            transitions += out["transitions"]
            if fn == "closure":
                closed = closed and out["closed"]
                res.extra.setdefault("closure", {})[f"{case['level']}/{case['fs']}"] = {"states": out["states"], "transitions": out["transitions"], "max_depth": out["depth"]}
    if not closed:
        res.caps.append("closure search stopped at 400 states")
    res.states = states
    res.transitions = transitions
    res.traces = transitions
