"""C11 - bounded, grouped reads (DESIGN §4 C11).  I/O monitor on mcfs://.

For every selection of C02's depth-1 alphabet (rows alphabet x 4 column
representatives), every rpc and geometry: the event log of ``.values`` must show
opens of that image file only, <= 1 read per line group overlapping the
selected span, each read confined to its group's bytes and to the file, no
read for groups outside the span, nothing at all for an empty selection.  For
every open_alos2: descriptor [0,720) first, then
<= ceil(L/rpc) contiguous front-to-back reads ending at 720 + L*reclen.
"""
import math

import numpy as np

from mc import core, harness, synth, vfs
from mc.checks import c02

ID = "C11"
LEVEL = "exploration"


def selected_rows(expr, L):
    """independent model of which line ids an expression selects (None = all)"""
    if expr is None:
        return list(range(L))
    if expr[0] == "i":
        return [expr[1] % L]
    if expr[0] == "s":
        return list(range(L)[slice(expr[1], expr[2], expr[3])])
    if expr[0] == "a":
        return [k % L for k in expr[1]]
    if expr[0] == "m":
        return [k for k, b in enumerate(expr[1]) if b]
    raise ValueError(expr)


def check_load(events, fname, im, rpc, rows):
    """-> list of violation strings"""
    info = synth.TYPE_INFO[im["type"]]
    L, P = im["lines"], im["pixels"]
    reclen = info["prefix"] + P * info["bps"]
    size = 720 + L * reclen
    rpc_eff = min(rpc, L)
    bad = []
    foreign = [e for e in events if e[0] in ("open", "read", "seek", "open-missing") and not e[1].endswith("/" + fname)]
    if foreign:
        bad.append(f"touches another file: {foreign[0][:2]}")
    ev = [e for e in events if e[1].endswith("/" + fname)]
    opens = [e for e in ev if e[0] == "open"]
    reads = [e for e in ev if e[0] == "read"]
    if not rows:
        if any(e[4] != 0 for e in reads):
            bad.append(f"empty selection but {len(reads)} read")
        return bad
    lo, hi = min(rows), max(rows)
    touched = set(range(lo // rpc_eff, hi // rpc_eff + 1))
    seen = set()
    for _, _, _, off, n in reads:
        if n is None or n < 0:
            bad.append(f"unbounded read at {off}")
            continue
        if off < 0 or off + n > size:
            bad.append(f"read [{off},{off + n}) outside the file (size {size})")
            continue
        if n == 0:
            continue
        g0 = (off - 720) // (rpc_eff * reclen) if off >= 720 else -1
        g1 = (off + n - 1 - 720) // (rpc_eff * reclen) if off + n - 1 >= 720 else -1
        if g0 != g1 or g0 < 0:
            bad.append(f"read [{off},{off + n}) spans line groups {g0}..{g1}")
            continue
        if g0 not in touched:
            bad.append(f"read of group {g0} outside the selected span groups {sorted(touched)}")
        if g0 in seen:
            bad.append(f"group {g0} read more than once")
        seen.add(g0)
    return bad


def check_open(events, fname, im, rpc):
    info = synth.TYPE_INFO[im["type"]]
    L, P = im["lines"], im["pixels"]
    reclen = info["prefix"] + P * info["bps"]
    ev = [e for e in events if e[1].endswith("/" + fname)]
    opens = [e for e in ev if e[0] == "open"]
    reads = [(e[3], e[4]) for e in ev if e[0] == "read"]
    bad = []
    if not opens:
        bad.append("open: image never opened")
    # the 720-byte descriptor comes first (in one or several pieces), then the line records
    pos, k = 0, 0
    while k < len(reads) and pos < 720 and reads[k][0] == pos and reads[k][1] is not None and 0 < reads[k][1] <= 720 - pos:
        pos += reads[k][1]
        k += 1
    if pos != 720:
        bad.append(f"open: reads start with {reads[:2]}, expected the descriptor [0, 720) first")
        return bad
    body = reads[k:]
    if len(body) > math.ceil(L / rpc):
        bad.append(f"open: {len(body)} line-record reads > ceil({L}/{rpc})")
    pos = 720
    for off, n in body:
        if off != pos or n <= 0:
            bad.append(f"open: read ({off},{n}) not contiguous at {pos}")
            break
        pos = off + n
    if pos != 720 + L * reclen and not bad:
        bad.append(f"open: reads end at {pos}, expected {720 + L * reclen}")
    return bad


_open_logs = {}


def execute(case):
    tc, L, P, rpc = case["type"], case["L"], case["P"], case["rpc"]
    cached_from = case.get("cached_from")
    key = (tc, L, P, rpc, cached_from)
    if key not in c02._cache:
        vfs.reset_log()
        c02.opened(tc, L, P, rpc, cached_from=cached_from)
        _open_logs.clear()
        _open_logs[key] = list(vfs.LOG)
    prod, da, twin, fname, im, ref = c02.opened(tc, L, P, rpc, cached_from=cached_from)
    fails = []
    if case.get("check_open") and cached_from is None:
        for b in check_open(_open_logs[key], fname, im, rpc):
            fails.append({"sig": {"kind": "open"}, "detail": f"{tc} {L}x{P} rpc={rpc}: {b}", "case": {**case, "ops": []}})
        # the metadata pass is the same whenever the image itself is read: also when the open is asked to write a cache,
        # and when use_cache=True finds none
        from mc import env

        for kw in ({"create_cache": True, "use_cache": False}, {"create_cache": True, "use_cache": True}, {"use_cache": True}):
            env.wipe_cache()
            vfs.reset_log()
            prod.open(records_per_chunk=rpc, **kw)
            for b in check_open(list(vfs.LOG), fname, im, rpc):
                fails.append({"sig": {"kind": "open", "options": str(sorted(kw.items()))}, "detail": f"{tc} {L}x{P} rpc={rpc} open with {kw}: {b}", "case": {**case, "ops": []}})
        env.wipe_cache()
    n = n_loaded = n_agree = n_skip = 0
    work = [("", da, op) for op in case["ops"]]
    if cached_from == "cli":
        # every selection is the FIRST load of its own copy of the never-loaded lazy object
        import copy

        work = [("", copy.deepcopy(da), op) for op in case["ops"]]
    if case.get("check_open"):
        # copies of the lazy object (deep copy, copy module, pickle round trip) stand for the same image opened with the
        # same records_per_chunk: their loads obey the same bounds
        import copy
        import pickle

        reps = [["isel", r, None] for r in c02.ints(L) + [["s", None, None, None], ["s", 0, 1, None], ["s", L - 1, None, None], ["s", None, None, 2]]]
        for how, clone in (("deep copy", lambda: da.copy(deep=True)), ("copy.deepcopy", lambda: copy.deepcopy(da)), ("pickle round trip", lambda: pickle.loads(pickle.dumps(da))), ("shallow copy", lambda: da.copy(deep=False))):
            try:
                twin_da = clone()
            except Exception as e:
                fails.append({"sig": {"kind": "copy-raises", "how": how}, "detail": f"{tc} {L}x{P} rpc={rpc}: {how} raises {type(e).__name__}: {str(e)[:80]}", "case": {**case, "ops": []}})
                continue
            work += [(how, twin_da, op) for op in reps]
    for how, arr, op in work:
        try:
            sel = c02.apply(arr, op)
        except Exception:
            continue
        # the lines this lazy object stands for, read off its in-memory line-number coordinate
        # (position-coded 1..L); equals the expression's own selection except where xarray's lazy
        # layer mis-composes it (C02 known finding D13c), in which case C11 judges the load it issued
        rows = [int(k) - 1 for k in np.atleast_1d(sel["rows"].values)]
        model = [k % L for k in op[1]] if op[0] == "vec" else selected_rows(op[1], L)
        agree = rows == model
        if "rows" in sel.dims and sel.sizes["rows"] != sel.variable.shape[sel.dims.index("rows")]:
            continue
        if "rows" in sel.dims and tuple(sel.variable._data.shape) != tuple(sel.variable.shape):
            continue
        lazy_shape = getattr(sel.variable._data, "shape", None)
        if "rows" in sel.dims and lazy_shape is not None and lazy_shape[sel.dims.index("rows")] != len(rows):
            n_skip += 1  # xarray's lazy layer composed a different selection than the coordinate (C02 D13c)
            continue
        vfs.reset_log()
        try:
            sel.values
        except Exception:
            continue  # C02's business
        n += 1
        n_loaded += bool(rows)
        # an empty column selection may legitimately skip or perform the row reads
        bad = check_load(list(vfs.LOG), fname, im, rpc, rows)
        if bad:
            sig = {"kind": bad[0].split(" ")[0] + ("-empty" if not rows else "") + (f" ({how})" if how else "")}
            if core.jkey(sig) not in {core.jkey(f["sig"]) for f in fails}:
                fails.append({"sig": sig, "detail": f"{tc} {L}x{P} rpc={rpc} op={op}{' on a ' + how if how else ''}: {'; '.join(bad[:3])}", "case": {"type": tc, "L": L, "P": P, "rpc": rpc, "ops": [op]}})
        n_agree += agree
    return {"ok": not fails, "failures": fails, "outcome": "ok" if not fails else fails[0]["sig"]["kind"], "nontrivial": n_loaded > 0, "n": n, "n_agree": n_agree, "n_skip": n_skip}


def execute_large(case):
    """the same monitor on a realistically sized image (> 1 MiB per chunk at the default rpc)"""
    tc, L, P, rpc = case["type"], case["L"], case["P"], case["rpc"]
    samples = None
    if L * P > 4_000_000:  # the default position-coded samples are built line by line in Python: too slow at this size
        bps = synth.TYPE_INFO[tc]["bps"]
        blob = np.random.default_rng(L).integers(0, 127, size=(L, P * bps), dtype="uint8")
        samples = [blob[k].tobytes() for k in range(L)]
    hdr = None
    if case.get("bursts"):
        nb, lb = case["bursts"]
        hdr = {"prefix_suffix_data_locators.number_of_burst_data": nb, "prefix_suffix_data_locators.number_of_lines_per_burst": lb, "scansar_burst_data_information.number_of_overlap_lines_with_adjacent_bursts": 1}
    im = synth.image_spec("HH", "B2" if hdr else None, L, P, tc, samples=samples, header=hdr)
    spec = synth.product_spec("1.1" if tc == "C*8" else "1.5", images=[im])
    files, _ = synth.build(spec)
    fname = synth.image_name(spec, im)
    fails, n = [], 0
    with harness.Product(files, "mcfs") as prod:
        vfs.reset_log()
        tree = prod.open(use_cache=False, **({"records_per_chunk": rpc} if rpc else {}))
        for b in check_open(list(vfs.LOG), fname, im, rpc or 1024):
            fails.append({"sig": {"kind": "open"}, "detail": f"{tc} {L}x{P} rpc={rpc or 'default'}: {b}", "case": {**case, "fn": "execute_large"}})
        da = tree["imagery/HH_scan2/data" if hdr else "imagery/HH/data"]
        sels = [0, L - 1, slice(None), slice(1, L - 1), slice(None, None, 7), [3, L - 2], slice(2, 2)] if case.get("few") else [0, L // 2, L - 1, slice(None), slice(50, L - 50), slice(1, None), slice(0, L - 1), slice(1020, 1030), slice(1024, 1025), slice(0, L, 1024), slice(L // 3, L // 3 + 5), slice(None, None, 16), slice(None, None, 2), slice(0, 64), slice(0, 128), slice(64, 65), slice(L - 3, None), slice(None, None, -7), [3, L - 2], slice(2, 2)]
        for sel in sels:
            rows = list(range(L))[sel] if isinstance(sel, slice) else ([sel] if isinstance(sel, int) else list(sel))
            vfs.reset_log()
            da.isel(rows=sel).values
            n += 1
            bad = check_load(list(vfs.LOG), fname, im, rpc or 1024, rows)
            if bad:
                sig = {"kind": "large-" + bad[0].split(" ")[0]}
                if core.jkey(sig) not in {core.jkey(f["sig"]) for f in fails}:
                    fails.append({"sig": sig, "detail": f"{tc} {L}x{P} rpc={rpc or 'default'} rows={sel}: {'; '.join(bad[:2])}", "case": {**case, "fn": "execute_large"}})
    return {"ok": not fails, "failures": fails, "outcome": "large-ok" if not fails else fails[0]["sig"]["kind"], "nontrivial": True, "n": n, "n_agree": n, "n_skip": 0}


def in_bounds(e, n):
    if e is None:
        return True
    if e[0] == "i":
        return -n <= e[1] < n
    if e[0] == "a":
        return all(-n <= k < n for k in e[1])
    return True


def plan(tier):
    cases = []
    Ls = range(1, 5) if tier == "quick" else range(1, 7)
    for tc in ("IU2", "C*8"):
        for L in Ls:
            for P in (3,) if tier == "quick" else (1, 3):
                for rpc in range(1, L + 2):
                    rows = c02.full_alphabet(L) if (tier == "thorough" or L <= 4) else c02.ints(L) + c02.arrays(L) + c02.masks(L)
                    colreps = [None, ["i", 0], ["s", None, None, -1], ["a", [P - 1, 0]]]
                    ops = [["isel", r, c] for r in rows for c in colreps]
                    # vectorised (pointwise) selections: every pair and triple of lines
                    vecs = [[a, b] for a in range(L) for b in range(L)] + [[a, b, c] for a in range(L) for b in range(L) for c in range(L)]
                    ops += [["vec", v, [(i * (P - 1)) % P if P > 1 else 0 for i in range(len(v))]] for v in vecs]
                    ops += [["vec", [a - L, b], [0, P - 1]] for a in range(L) for b in range(L)]
                    first = True
                    for b in c02.batches(tc, L, P, rpc, ops, size=800):
                        b["check_open"] = first
                        first = False
                        cases.append(b)
                    # the same image opened through an index cache that was written and first used with another rpc
                    if L >= 3 and P == 3:
                        other = 1 if rpc > 1 else L
                        reps = [["isel", r, c] for r in c02.ints(L) + c02.representatives(L) + [["s", a, b, None] for a in range(L) for b in range(a, L + 1)] for c in colreps[:2]]
                        for b in c02.batches(tc, L, P, rpc, reps, size=800):
                            b["cached_from"] = other
                            cases.append(b)
                        # ... and through an index written by the command line tool elsewhere and deployed next to the image;
                        # every selection is then the first load of a fresh copy of the lazy object
                        for b in c02.batches(tc, L, P, rpc, reps, size=800):
                            b["cached_from"] = "cli"
                            cases.append(b)
    # wide lines, narrow column windows (1 or 2 of 16 / 40 columns): still one read per line group
    for tc in ("IU2", "C*8"):
        for L, P, rpc in ((4, 16, 2), (4, 16, 4), (5, 40, 3), (6, 16, 1024)):
            cols = [["i", 0], ["i", P - 1], ["i", P // 2], ["s", 3, 5, None], ["s", 0, 2, None], ["s", P - 2, None, None], ["s", None, None, P // 2], ["a", [1]], ["a", [P - 1, 0]]]
            rows = [["s", None, None, None], ["s", 0, 2, None], ["s", 1, None, None], ["s", None, None, 2], ["a", [0, L - 1]], ["i", 1]]
            for b in c02.batches(tc, L, P, rpc, [["isel", r, c] for r in rows for c in cols], size=800):
                cases.append(b)
    return cases


def run(res, tier, seed):
    res.rule = (
        "rows alphabet of C02 (all ints, slices, int arrays len<=2, masks) x 4 column representatives, plus every pointwise (vectorised) pair" " and triple of lines, x rpc 1..L+1 x L 1..4|6 x both types; narrow column windows of 16- and 40-pixel lines;"
        " each load's mcfs:// event log is checked against byte spans computed by independent arithmetic; the same bounds for loads from deep copies / pickle round trips of the lazy object; plus one"
        " open_alos2 metadata-pass log per (type, L, P, rpc); plus the same loads on an image opened through an index cache that was"
        " written and first used with a different rpc (groups are those of the *requested* rpc), and through an index written by the command line tool elsewhere and deployed next to the image (every selection = first load of a fresh copy); plus 20 selections on realistically sized"
        " images (640x1000 IU2, 320x600 C*8 at rpc {default, 64, 1000}; 2500x8 IU2, 2100x3 C*8 at rpc {default, 100, 1000, 2048}; 1300x40000 IU2 (104 MB) at rpc {default, 64, 100}, 300x40000 C*8 at rpc 7, 5120x4 IU2; 290x124931 C*8 at rpc 290 and 300x499000 IU2 at the default rpc: single requests of 290-300 MB, 7 selections each). A batch is non-trivial if at least one selection loads >= 1 line."
    )
    res.assumptions = ["I/O is observed at the fsspec file-object level (open/seek/read), not at the OS level"]
    n = na = nskip = 0
    for idx, case, out in core.pool_map(__name__, "execute", plan(tier), chunksize=1):
        small = {k: case[k] for k in ("type", "L", "P", "rpc")} | {"n_ops": len(case["ops"]), "first_op": case["ops"][0], "batch": idx}
        res.record(small, out, order=idx)
        n += out["n"]
        na += out["n_agree"]
        nskip += out["n_skip"]
    large = [{"type": tc, "L": L, "P": P, "rpc": rpc} for tc, L, P in (("IU2", 640, 1000), ("C*8", 320, 600)) for rpc in (None, 64, 1000)]
    large += [{"type": tc, "L": L, "P": P, "rpc": rpc} for tc, L, P in (("IU2", 2500, 8), ("C*8", 2100, 3)) for rpc in (None, 2, 7, 100, 1000, 2048)]
    # SPECAN-style images with a burst layout that is consistent with the line count: the groups are still those of rpc
    large += [{"type": tc, "L": nb * lb, "P": 3, "rpc": rpc, "bursts": [nb, lb]} for tc in ("C*8", "IU2") for nb, lb in ((3, 4), (4, 3), (5, 8)) for rpc in (5, 6, 7, 1024)]
    # ~100 MB: selections beyond 64 MiB, requests of 5 / 8 / 80 MB
    large += [{"type": "IU2", "L": 1300, "P": 40000, "rpc": rpc} for rpc in (None, 64, 100)] + [{"type": "C*8", "L": 300, "P": 40000, "rpc": 7}, {"type": "IU2", "L": 5120, "P": 4, "rpc": None}]
    # ~290 MB in 290-300 lines of nearly the longest record the 6-digit length field allows: one request of > 256 MiB
    huge = [{"type": "C*8", "L": 290, "P": (999_999 - synth.TYPE_INFO["C*8"]["prefix"]) // 8, "rpc": 290, "few": True}, {"type": "IU2", "L": 300, "P": 499_000, "rpc": None, "few": True}]
    large = huge + large  # started first: they take the longest
    for idx, case, out in core.pool_map(__name__, "execute_large", large, chunksize=1):
        res.record({**case, "fn": "execute_large"}, out, order=10**6 + idx)
        n += out["n"]
    res.extra["loads_monitored"] = n
    res.extra["selection_model_agrees_with_coordinate"] = na
    res.extra["skipped_lazy_shape_inconsistent_with_coordinate"] = nskip
