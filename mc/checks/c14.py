"""C14 - summary parsing total on well-formed text, complete on malformed (DESIGN §4 C14).

Well-formed: documented keys of all eight sections; value alphabet on the
free-text keys {plain, spaces, '=', quote, '="', empty}; all permutations
within each section (<= 5 lines), all rotations and adjacent transpositions of
the whole text; LF / CRLF / no final newline; 3..10 product files; 1..3 shape
indices.  Malformed: every subset of a 12-line summary corrupted x 9 corruption
kinds (uniformly) + all kind pairs on 2-subsets; the error group must name
exactly the corrupted lines (one numbering base, 0 or 1).
"""
import itertools
import re

from mc import core, env, harness, refmodel, synth, treecheck

ID = "C14"
LEVEL = "exploration"

VALUES = [("plain", "GOOD"), ("spaces", "a b  c"), ("equals", "x=y"), ("quote", 'say "hi" now'), ("eqquote", 'k="v"'), ("empty", ""), ("trailing-space", "v "), ("decomposed", "cafe\u0301 A\u030a"), ("compat", "\u212b \u2126 \u212a"), ("precomposed", "caf\u00e9 \u00c5"), ("cjk", "\u65e5\u672c")]
FREE_KEYS = ["Odi_SiteDateTime", "Rad_PracticeResultCode", "Ach_TimeCheck", "Pds_MapDirection", "Lbi_Satellite", "Pdi_ProductFormat", "Odi_SceneId"]

CORRUPTIONS = {
    "drop_underscore": lambda l: l[:3] + l[4:],
    "two_letter_section": lambda l: l[1:],
    "four_letter_section": lambda l: "X" + l,
    "digit_section": lambda l: "0" + l[1:],
    "drop_equals": lambda l: l.replace("=", "", 1),
    "drop_open_quote": lambda l: l.replace('="', "=", 1),
    "drop_close_quote": lambda l: l[:-1],
    "trailing_text": lambda l: l + " x",
    "empty_line": lambda l: "",
    "leading_blank": lambda l: " " + l,
    # characters outside ASCII that str.isalpha(), \\w or a careless character class accept
    "nonascii_letter_section": lambda l: l[0] + "ś" + l[2:],
    "fullwidth_letter_section": lambda l: "Ａ" + l[1:],
    "fullwidth_underscore": lambda l: l[:3] + "＿" + l[4:],
    "typographic_close_quote": lambda l: l[:-1] + "”",
    # invisible characters a tolerant decoder or strip() would swallow
    "byte_order_mark": lambda l: "\ufeff" + l,
    "zero_width_space": lambda l: l[:3] + "\u200b" + l[3:],
    "trailing_nbsp": lambda l: l + "\u00a0",
    # characters that Unicode normalisation would turn into ASCII
    "kelvin_sign_section": lambda l: "\u212a" + l[1:],
    "fullwidth_equals": lambda l: l.replace("=", "\uff1d", 1),
}


def base_spec(n_images=2, n_shapes=2):
    names = harness.IMAGE_NAMES[4 : 4 + n_images] if n_images > 4 else [("HH", None), ("HV", None), ("VH", None), ("VV", None)][:n_images]
    level = "1.1" if n_images > 4 else "1.5"
    return {"level": level, "images": [[pol, scan, 1, 1] for pol, scan in names], "leader": {"n_att": 1, "n_chan": 1}}


def lines_of(spec_case, n_shapes=None):
    spec = treecheck.spec_from_case({"spec": spec_case})
    lines = synth.summary_lines(spec)
    if n_shapes is not None:
        lines = [l for l in lines if not l.startswith(("Pdi_NoOfPixels", "Pdi_NoOfLines"))]
        at = next(i for i, l in enumerate(lines) if l.startswith("Pdi_BitPixel")) + 1
        extra = []
        for i in range(n_shapes):
            extra += [f'Pdi_NoOfPixels_{i}="{10 + i}"', f'Pdi_NoOfLines_{i}="{20 + i}"']
        lines = lines[:at] + extra + lines[at:]
    return lines


def set_value(lines, key, value):
    return [f'{key}="{value}"' if l.startswith(key + "=") else l for l in lines]


def plan(tier):
    cases = []
    sc = base_spec()
    base = lines_of(sc)
    cases.append({"spec": sc, "lines": base, "label": "baseline"})
    for key in FREE_KEYS:
        for label, v in VALUES:
            cases.append({"spec": sc, "lines": set_value(base, key, v), "label": f"{key}={label}"})
    # documented conversions over their value ranges (dates incl. leap day, a leap second and the ends of a day; numbers in
    # several spellings; every code of the lookup tables; empty checks)
    TYPED = {
        "Img_SceneCenterDateTime": ["20160229 00:00:00.000", "20161231 23:59:60.150", "20491231 23:59:59.999", "20140101 12:00:00.5"],
        "Img_SceneStartDateTime": ["20200229 23:59:59.999", "20150630 23:59:60.000"],
        "Lbi_ObservationDate": ["20160229", "20491231", "20140101"],
        "Scs_SceneShift": ["0", "-5", "5"],
        "Pds_UTM_ZoneNo": ["1", "60"],
        "Pds_PixelSpacing": ["0.0", "2.5", "100", "1.0E+02"],
        "Img_ImageSceneCenterLatitude": ["-89.9999999", "0", "90.0"],
        "Img_ImageSceneCenterLongitude": ["180.0", "-0.0", "1.5e1"],
        "Pdi_BitPixel": ["16", "64"],
        "Pdi_ProductDataSize": ["0.1", "12345.6"],
        "Pds_ResamplingMethod": ["NN", "BL", "CC"],
        "Lbi_ProcessFacility": ["SCMO", "EICS"],
        "Ach_TimeCheck": ["", "POOR"],
        "Ach_AttitudeCheck": ["GOOD"],
    }
    # the scene id's acquisition date as it surfaces in /summary/scene_specification: every two-digit year, and every day
    # from 27 December to 4 January (calendar year vs week-numbering year) of seven years
    sid_dates = [f"{yy:02d}0506" for yy in range(100)] + [f"{yy:02d}{md}" for yy in (14, 15, 16, 18, 20, 24, 26) for md in ("1227", "1228", "1229", "1230", "1231", "0101", "0102", "0103", "0104")] + ["160229", "000229"]
    for d in sid_dates:
        cases.append({"spec": sc, "lines": set_value(base, "Scs_SceneID", f"ALOS2014410740-{d}"), "label": f"Scs_SceneID date {d}"})
    for key, vals in TYPED.items():
        for v in vals:
            cases.append({"spec": sc, "lines": set_value(base, key, v), "label": f"{key}={v!r}"})
    cases.append({"spec": sc, "lines": [l for k, vals in TYPED.items() for l in []] or [next((f'{k}="{TYPED[k][-1]}"' for k in TYPED if l.startswith(k + "=")), l) for l in base], "label": "every typed key at its last alphabet value"})
    for eol, fin in (("\r\n", True), ("\n", False), ("\r\n", False)):
        cases.append({"spec": sc, "lines": base, "eol": eol, "final_newline": fin, "label": f"eol={eol!r} final_newline={fin}"})
    # order: rotations, adjacent transpositions of the whole text
    for r in range(1, len(base)):
        cases.append({"spec": sc, "lines": base[r:] + base[:r], "label": f"rotate {r}"})
    for i in range(len(base) - 1):
        l = list(base)
        l[i], l[i + 1] = l[i + 1], l[i]
        cases.append({"spec": sc, "lines": l, "label": f"transpose {i},{i + 1}"})
    cases.append({"spec": sc, "lines": base[::-1], "label": "reversed"})
    # all permutations within each section (<= 5 lines of it)
    secs = {}
    for i, l in enumerate(base):
        secs.setdefault(l[:3], []).append(i)
    for sec, idxs in secs.items():
        idxs = idxs[:5]
        for perm in itertools.permutations(idxs):
            if list(perm) == idxs:
                continue
            l = list(base)
            for src, dst in zip(perm, idxs):
                l[dst] = base[src]
            cases.append({"spec": sc, "lines": l, "label": f"permute section {sec} {perm}", "seam": tier == "quick" and len(idxs) > 3})
    for n_images in range(1, 9):  # 3..10 product files
        s2 = base_spec(n_images)
        cases.append({"spec": s2, "lines": lines_of(s2), "label": f"{n_images + 2} product files"})
        cases.append({"spec": s2, "lines": lines_of(s2)[::-1], "label": f"{n_images + 2} product files, reversed text"})
    for n_shapes in (1, 2, 3):
        cases.append({"spec": sc, "lines": lines_of(sc, n_shapes), "label": f"{n_shapes} shape indices"})
    # every order of the shape lines among their own slots: pixels and lines of one index pair up by index, not by position
    for n_shapes in (2, 3):
        l0 = lines_of(sc, n_shapes)
        idxs = [i for i, l in enumerate(l0) if l.startswith(("Pdi_NoOfPixels", "Pdi_NoOfLines"))]
        for perm in itertools.permutations(idxs):
            if list(perm) == idxs:
                continue
            l = list(l0)
            for src, dst in zip(perm, idxs):
                l[dst] = l0[src]
            cases.append({"spec": sc, "lines": l, "label": f"{n_shapes} shape indices, shape lines in order {[j - idxs[0] for j in perm]}", "seam": n_shapes > 2})
    return cases


def summary_leaves(tree_or_group):
    return None


def execute(case):
    """well-formed text: through open_alos2 (or the summary seam when case['seam'])"""
    spec = treecheck.spec_from_case({"spec": case["spec"]})
    spec = dict(spec)
    spec["summary"] = {"lines": case["lines"], "eol": case.get("eol", "\n"), "final_newline": case.get("final_newline", True)}
    out = treecheck.check_spec(spec, only=["/summary", "/imagery#", "/#"], ignore=())
    fails = out["failures"]
    extra = [k for k in out["unverified"] if k.startswith("/summary")]
    if extra:
        fails.append({"sig": {"kind": "unexpected-summary-leaf"}, "detail": f"summary leaves not predicted by the reference model: {extra[:4]}"})
    for f in fails:
        f["detail"] = f"{case['label']}: {f['detail']}"
        f["case"] = case
    return {"ok": not fails, "failures": fails[:6], "outcome": "ok" if not fails else fails[0]["sig"].get("kind", "leaf-mismatch"), "nontrivial": True}


TWELVE = [
    'Odi_SceneId="ALOS2014410740-140829"',
    'Scs_SceneID="ALOS2014410740-140829"',
    'Scs_SceneShift="0"',
    'Pds_ProductID="WBDR1.5RUD"',
    'Pds_ResamplingMethod="NN"',
    'Img_SceneCenterDateTime="20140829 03:21:54.541"',
    'Pdi_BitPixel="16"',
    'Pdi_ProductFormat="CEOS"',
    'Ach_TimeCheck="GOOD"',
    'Rad_PracticeResultCode="GOOD"',
    'Lbi_Satellite="ALOS2"',
    'Lbi_ObservationDate="20140829"',
]


def reported_lines(exc):
    nums = []
    for e in exc.exceptions:
        # the property fixes that the number is named, not how the message is worded
        if isinstance(getattr(e, "lineno", None), int):
            nums.append(e.lineno)
            continue
        text = " ".join([str(a) for a in e.args[:1]] + list(getattr(e, "__notes__", [])))
        m = None
        for pat in (r"\blines?\s*(?:number|no\.?|#)?\s*[:=]?\s*(\d+)", r"\blineno\s*[:=]?\s*(\d+)", r"\bl\.\s*(\d+)", r"^\s*(\d+)\s*:", r":(\d+):"):
            m = re.search(pat, text, re.IGNORECASE)
            if m:
                break
        nums.append(int(m.group(1)) if m else None)
    return nums


def judge_malformed(lines, corrupted, opener):
    """-> None or failure detail"""
    try:
        opener(lines)
    except BaseException as e:
        if not hasattr(e, "exceptions"):
            return f"raises {type(e).__name__} ({str(e)[:80]}) instead of one error group"
        nums = reported_lines(e)
        if None in nums:
            return f"a sub-error names no line: {[str(x) for x in e.exceptions][:3]}"
        want = sorted(corrupted)
        got = sorted(nums)
        if got != want and got != [i + 1 for i in want]:
            return f"error group names lines {got}, corrupted lines are {want} (0-based) / {[i + 1 for i in want]} (1-based)"
        if len(set(nums)) != len(nums):
            return f"duplicate line numbers {nums}"
        return None
    return "malformed text was accepted"


def execute_malformed(case):
    env.import_lib()
    from ceos_alos2.summary import open_summary

    def seam(lines):
        return open_summary(harness.mem_mapper({"summary.txt": ("\n".join(lines) + "\n").encode()}), "summary.txt")

    fails, n = [], 0
    for mask in range(case["lo"], case["hi"]):
        subset = [i for i in range(12) if mask >> i & 1]
        if not subset:
            continue
        kinds = [(k,) * len(subset) for k in CORRUPTIONS]
        if len(subset) == 2:
            kinds += [p for p in itertools.product(CORRUPTIONS, repeat=2) if p[0] != p[1]]
        for ks in kinds:
            lines = list(TWELVE)
            for i, k in zip(subset, ks):
                lines[i] = CORRUPTIONS[k](TWELVE[i])
                assert refmodel.parse_summary_line(lines[i]) is None, (k, lines[i])
            n += 1
            bad = judge_malformed(lines, subset, seam)
            if bad:
                sig = {"kind": "malformed-report", "what": bad.split(" ")[0], "corruption": ks[0] if len(set(ks)) == 1 else "mixed"}
                if core.jkey(sig) not in {core.jkey(f["sig"]) for f in fails}:
                    fails.append({"sig": sig, "detail": f"lines {subset} corrupted by {ks if len(set(ks)) > 1 else ks[0]}: {bad}", "case": {"fn": "execute_malformed", "lo": mask, "hi": mask + 1}})
    return {"ok": not fails, "failures": fails, "outcome": "malformed-ok" if not fails else "malformed-report", "nontrivial": True, "n": n}


def execute_numbering(case):
    """file roles follow the ProductFileNameNN numbering (01 volume directory, 02 leader, 03.. images, last trailer) whatever the
    names look like: every rotation / transposition of typed names over the numbers, through summary.open_summary"""
    env.import_lib()
    from ceos_alos2.summary import open_summary

    spec = treecheck.spec_from_case({"spec": base_spec(case["n_images"])})
    base = synth.summary_lines(spec)
    key = next(l for l in base if "ProductFileName01" in l).split("01=")[0]
    names = [l.split('="', 1)[1][:-1] for l in base if "ProductFileName" in l and not l.startswith("Pdi_Cnt")]
    perm = case["perm"]
    assigned = [names[j] for j in perm]
    lines = [l for l in base if "ProductFileName" not in l or l.startswith("Pdi_Cnt")]
    numbered = [f'{key}{i + 1:02d}="{n}"' for i, n in enumerate(assigned)]
    if case.get("shuffle"):
        numbered = numbered[::-1]
    lines = lines[:5] + numbered + lines[5:]


    fails = []
    try:
        g = open_summary(harness.mem_mapper({"summary.txt": ("\n".join(lines) + "\n").encode()}), "summary.txt")
        attrs = g["product_information"]["data_files"].attrs
        got = {k: (list(v) if isinstance(v, (list, tuple)) else v) for k, v in attrs.items()}
        want = {"volume_directory": assigned[0], "sar_leader": assigned[1], "sar_imagery": assigned[2:-1], "sar_trailer": assigned[-1]}
        if got != want:
            fails.append({"sig": {"kind": "file-roles"}, "detail": f"files numbered {assigned}: roles {got}, the numbering says {want}", "case": {**case, "fn": "execute_numbering"}})
    except Exception as e:
        fails.append({"sig": {"kind": "file-roles-raises", "exc": type(e).__name__}, "detail": f"files numbered {assigned}: {type(e).__name__}: {str(e)[:100]}", "case": {**case, "fn": "execute_numbering"}})
    return {"ok": not fails, "failures": fails, "outcome": "numbering-ok" if not fails else fails[0]["sig"]["kind"], "nontrivial": True}


def execute_malformed_full(case):
    """a corrupted summary inside a complete product, through open_alos2"""
    spec = treecheck.spec_from_case({"spec": base_spec()})
    base = synth.summary_lines(spec)
    subset = case["subset"]
    lines = list(base)
    for i in subset:
        lines[i] = CORRUPTIONS[case["kind"]](base[i])
    spec = dict(spec)
    spec["summary"] = {"lines": lines, "eol": "\n", "final_newline": True}
    files, _ = synth.build(spec)
    with harness.Product(files, "mcfs") as prod:
        bad = judge_malformed(lines, subset, lambda _l: prod.open())
    if bad:
        return {"ok": False, "sig": {"kind": "malformed-report", "what": bad.split(" ")[0], "corruption": case["kind"], "seam": "open_alos2"}, "detail": f"open_alos2: lines {subset} corrupted by {case['kind']}: {bad}", "outcome": "malformed-report"}
    return {"ok": True, "outcome": "malformed-ok", "nontrivial": True}


def run(res, tier, seed):
    res.rule = (
        "well-formed: baseline; 7 free-text keys x 7 value shapes; CRLF / no final newline; all rotations, adjacent transpositions,"
        " reversal; all permutations within each section (<=5 lines); 3..10 product files (also reversed); 1..3 shape indices, and every order of the 4 / 6 shape lines of 2 / 3 indices (23 + 719 texts) -"
        " each through open_alos2 and compared with the summary reference model. Malformed: all 4095 non-empty subsets of a 12-line"
        " summary x 19 corruption kinds (9 of them with non-ASCII letters / underscore / quote / invisible characters incl. a byte order mark) + all kind pairs on 2-subsets through summary.open_summary; one kind per subset size and all"
        " single lines through open_alos2. File roles: every rotation / adjacent transposition / reversal of the typed names over the ProductFileNameNN numbers for 4, 5 and 7 files. Every corrupted line is rejected by an independent line recogniser (asserted)."
    )
    res.assumptions = ["values are printable ASCII without line separators", "the numbering base of reported lines is not fixed by the property (0 or 1 accepted, but one base per report)"]
    core.run_cases(res, __name__, plan(tier))
    chunks = [{"fn": "execute_malformed", "lo": lo, "hi": lo + 128} for lo in range(0, 4096, 128)]
    n = 0
    for idx, case, out in core.pool_map(__name__, "execute_malformed", chunks, chunksize=1):
        res.record(case, out, order=10**6 + idx)
        n += out["n"]
    full = []
    spec = treecheck.spec_from_case({"spec": base_spec()})
    nlines = len(synth.summary_lines(spec))
    kinds = list(CORRUPTIONS)
    for i in range(nlines):
        full.append({"fn": "execute_malformed_full", "subset": [i], "kind": kinds[i % len(kinds)]})
    for size in range(2, 8):
        full.append({"fn": "execute_malformed_full", "subset": list(range(1, 2 * size, 2)), "kind": kinds[size % len(kinds)]})
        full.append({"fn": "execute_malformed_full", "subset": [0, nlines - 1] + list(range(3, 3 + size)), "kind": kinds[(size + 3) % len(kinds)]})
    for idx, case, out in core.pool_map(__name__, "execute_malformed_full", full, chunksize=2):
        res.record(case, out, order=2 * 10**6 + idx)
    res.extra["malformed_texts_via_summary_seam"] = n
    numbering = []
    for n_images in (1, 2, 4):
        k = n_images + 3
        perms = [list(range(k))] + [list(range(r, k)) + list(range(r)) for r in range(1, k)] + [[*range(i), i + 1, i, *range(i + 2, k)] for i in range(k - 1)] + [list(range(k))[::-1]]
        for perm in perms:
            for shuffle in (False, True):
                numbering.append({"n_images": n_images, "perm": perm, "shuffle": shuffle})
    for idx, case, out in core.pool_map(__name__, "execute_numbering", numbering, chunksize=8):
        res.record({**case, "fn": "execute_numbering"}, out, order=3 * 10**6 + idx)
    res.extra["malformed_texts_via_open_alos2"] = len(full)
