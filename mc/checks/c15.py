"""C15 - identifier decoding total and exact over the code tables (DESIGN §4 C15).

The complete language is enumerated: 3600 product ids (through open_alos2 and
through the decoders), the file-name shapes type x polarisation x scan (full
cross product with the ids in the thorough tier), every date 2014..2049, and
all edit-distance-1 strings of 6 base identifiers, classified in / out of the
language by a table-driven recogniser that shares no code with the regexes.
"""
import datetime as dt
import itertools

from mc import core, env, harness, refmodel, synth, treecheck

ID = "C15"
LEVEL = "exploration"

MODES = list(refmodel.OBSERVATION_MODES)
ALL_PIDS = [m + d + lv + o + p + a for m in MODES for d in "LR" for lv in ("1.0", "1.1", "1.5", "3.1") for o in "GR_" for p in "UPML_" for a in "AD"]
SCANS = [None] + [f"{m}{n}" for m in "BF" for n in range(10)]
POLS = [None, "HH", "HV", "VH", "VV"]
TYPES = ["IMG", "LED", "VOL", "TRL"]
SCENE = "ALOS2014410740-140829"
# incl. a line feed (`$` and `.match` differ from fullmatch exactly there), non-ASCII decimal digits and letters (`\d`, `\w`,
# str.isdigit and int() accept them), lower case, control characters
CHARS = "ABCDEFGHIJKLMNOPQRSTUVWXYZ0123456789._- \n" + "３٣²Ａaxé\t\r\x00+/"

IN, OUT, UNDECIDED = "in", "out", "undecided"


def classify_pid(s):
    return IN if refmodel.decode_product_id(s) is not None else OUT


def classify_scene(s):
    return IN if refmodel.decode_scene_id(s) is not None else OUT


def classify_scan(s):
    return IN if len(s) == 2 and s[0] in "BF" and s[1] in "0123456789" else OUT


def parse_fname(s):
    """-> (class, expected dict or None)"""
    t = s.split("-")
    if len(t) not in (4, 5, 6):
        return OUT, None
    ftype = t[0]
    pol = scan = None
    rest = t[1:]
    if len(t) == 6:
        pol, scan = rest[0], rest[-1]
        rest = rest[1:-1]
    elif len(t) == 5:
        if len(rest[0]) == 2 and len(rest[1]) == 14:
            pol = rest[0]
            rest = rest[1:]
        else:
            scan = rest[-1]
            rest = rest[:-1]
    s14, d6, pid = rest
    if len(ftype) != 3 or not all(c in "ABCDEFGHIJKLMNOPQRSTUVWXYZ" for c in ftype):
        return OUT, None
    if pol is not None and pol not in ("HH", "HV", "VH", "VV"):
        return OUT, None
    sc = refmodel.decode_scene_id(f"{s14}-{d6}")
    pd = refmodel.decode_product_id(pid)
    if sc is None or pd is None:
        return OUT, None
    if scan is not None and classify_scan(scan) == OUT:
        return OUT, None
    exp = {"filetype": ftype, "polarization": pol, **sc, **pd}
    exp["date"] = dt.datetime(sc["date"].year, sc["date"].month, sc["date"].day)
    if scan is not None:
        exp["processing_method"] = refmodel.PROCESSING_METHODS[scan[0]]
        exp["scan_number"] = scan[1]
    return (IN if ftype in TYPES else UNDECIDED), exp


def edits(s):
    out = set()
    for i in range(len(s)):
        out.add(s[:i] + s[i + 1 :])
        for c in CHARS:
            out.add(s[:i] + c + s[i + 1 :])
    for i in range(len(s) + 1):
        for c in CHARS:
            out.add(s[:i] + c + s[i:])
    # common decorations of file names and ids (longer than one edit)
    for suf in (".tif", ".TIF", ".tiff", ".txt", ".gz", ".zip", ".index", ".xml", "-B", "-F", "_1", "__D", ".1", "-HH"):
        out.add(s + suf)
    for pre in ("./", "IMG-", "L-", "x_", "/"):
        out.add(pre + s)
    # a dash-separated component written twice, dropped, or swapped with its neighbour
    parts = s.split("-")
    if len(parts) > 1:
        for i in range(len(parts)):
            out.add("-".join(parts[: i + 1] + parts[i:]))
            out.add("-".join(parts[:i] + parts[i + 1 :]))
            for alt in ("HH", "HV", "VH", "VV", "F1", "B2"):
                out.add("-".join(parts[: i + 1] + [alt] + parts[i + 1 :]))
            if i + 1 < len(parts):
                out.add("-".join(parts[:i] + [parts[i + 1], parts[i]] + parts[i + 2 :]))
    out.discard(s)
    return sorted(out)


def fname(ftype, pol, pid, scan, scene=SCENE):
    return ftype + (f"-{pol}" if pol else "") + f"-{scene}-{pid}" + (f"-{scan}" if scan else "")


# ---------------------------------------------------------------------------


def execute_products(case):
    """product ids through open_alos2: /summary attrs and /imagery child names"""
    fails = []
    for pid, shapes in case["items"]:
        level = pid[4:7]
        names = [(pol, scan) for pol, scan in shapes]
        spec = treecheck.spec_from_case({"spec": {"level": "1.1" if level in ("1.0", "1.1") else "1.5", "images": [[pol, scan, 1, 1] for pol, scan in names], "leader": {"n_att": 1, "n_chan": 1}, "product_id": pid, "scene_id": case.get("scene", SCENE)}})
        out = treecheck.check_spec(spec, only=["/summary", "/imagery#"])
        for f in out["failures"]:
            sig = dict(f["sig"])
            if sig.get("kind") == "raises":
                sig["component"] = "product-id" if "product id" in f["detail"] else "other"
            if core.jkey(sig) not in {core.jkey(x["sig"]) for x in fails}:
                fails.append({"sig": sig, "detail": f"product id {pid} images {names}: {f['detail']}", "case": {"fn": "execute_products", "items": [[pid, shapes]], "scene": case.get("scene", SCENE)}})
    return {"ok": not fails, "failures": fails, "outcome": "ok" if not fails else "product-mismatch", "nontrivial": True, "n": len(case["items"])}


def check_decode(fn, s, cls, expected, what):
    """-> failure detail or None.  Every string is decoded twice: the verdict may not depend on
    whether the same string was seen before in this process."""
    first = _check_decode(fn, s, cls, expected, what)
    second = _check_decode(fn, s, cls, expected, what)
    if first is None and second is not None:
        return "on the second attempt: " + second
    return first


def _check_decode(fn, s, cls, expected, what):
    try:
        got = fn(s)
    except ValueError:
        return None if cls != IN else f"{what} {s!r} is in the language but was rejected"
    except Exception as e:
        return f"{what} {s!r}: raises {type(e).__name__} instead of ValueError / a value"
    if cls == OUT:
        return f"{what} {s!r} is outside the language but decoded to {str(got)[:120]}"
    if expected is not None and got != expected:
        diff = {k: (got.get(k), expected.get(k)) for k in set(got) | set(expected) if got.get(k) != expected.get(k)}
        return f"{what} {s!r} mis-decoded: {str(diff)[:200]}"
    return None


def lib_fns():
    env.import_lib()
    from ceos_alos2 import decoders
    from ceos_alos2.sar_image import filename_to_groupname

    return decoders, filename_to_groupname


def expected_scene(s):
    d = refmodel.decode_scene_id(s)
    if d is None:
        return None
    return {**d, "date": dt.datetime(d["date"].year, d["date"].month, d["date"].day)}


def execute_names(case):
    """file names through decoders.decode_filename + group names"""
    decoders, groupname = lib_fns()
    fails, n = [], 0
    groups = {}
    for pid in case["pids"]:
        for ftype in case["types"]:
            for pol in POLS:
                for scan in SCANS:
                    s = fname(ftype, pol, pid, scan)
                    cls, exp = parse_fname(s)
                    n += 1
                    bad = check_decode(decoders.decode_filename, s, cls, exp, "file name")
                    if not bad and ftype == "IMG" and pol:
                        g = groupname(s)
                        want = pol + (f"_scan{scan[1]}" if scan else "")
                        if g != want:
                            bad = f"group name of {s!r} is {g!r}, expected {want!r}"
                    if bad:
                        sig = {"kind": "filename", "what": bad.split(" is ")[-1][:30] if " is " in bad else bad[:30]}
                        if core.jkey(sig) not in {core.jkey(f["sig"]) for f in fails}:
                            fails.append({"sig": sig, "detail": bad, "case": {"fn": "execute_names", "pids": [pid], "types": [ftype]}})
    return {"ok": not fails, "failures": fails, "outcome": "names-ok" if not fails else "filename", "nontrivial": True, "n": n}


def execute_dates(case):
    decoders, _ = lib_fns()
    fails, n = [], 0
    d = dt.date.fromisoformat(case["start"])
    end = dt.date.fromisoformat(case["end"])
    while d <= end:
        s = f"ALOS2{case['orbit']}{case['frame']}-{d:%y%m%d}"
        n += 1
        bad = check_decode(decoders.decode_scene_id, s, IN, expected_scene(s), "scene id")
        if bad and not fails:
            fails.append({"sig": {"kind": "date"}, "detail": bad, "case": {"fn": "execute_dates", "start": d.isoformat(), "end": d.isoformat(), "orbit": case["orbit"], "frame": case["frame"]}})
        d += dt.timedelta(days=1)
    return {"ok": not fails, "failures": fails, "outcome": "dates-ok" if not fails else "date", "nontrivial": True, "n": n}


BASES = [
    ("product id", "WBDR1.5RUD"),
    ("product id", "FBSL1.1__A"),
    ("scene id", SCENE),
    ("scan info", "F3"),
    ("file name", fname("IMG", "HH", "WBDR1.1__D", "F1")),
    ("file name", fname("LED", None, "HBQR3.1GLA", None)),
    ("file name", fname("IMG", "HV", "UBSR1.5GUA", None)),
]


def execute_edits(case):
    decoders, _ = lib_fns()
    what, base = BASES[case["base"]]
    fn, classify = {
        "product id": (decoders.decode_product_id, lambda s: (classify_pid(s), refmodel.decode_product_id(s))),
        "scene id": (decoders.decode_scene_id, lambda s: (classify_scene(s), expected_scene(s))),
        "scan info": (decoders.decode_scan_info, lambda s: (classify_scan(s), {"processing_method": refmodel.PROCESSING_METHODS[s[0]], "scan_number": s[1]} if classify_scan(s) == IN else None)),
        "file name": (decoders.decode_filename, parse_fname),
    }[what]
    fails, n, hist = [], 0, {IN: 0, OUT: 0, UNDECIDED: 0}
    cands = edits(base)[case["lo"] : case["hi"]]
    for s in [base] * (case["lo"] == 0) + cands:
        cls, exp = classify(s)
        hist[cls] += 1
        n += 1
        bad = check_decode(fn, s, cls, exp, what)
        if bad:
            sig = {"kind": "near-miss", "what": what, "cls": cls}
            if core.jkey(sig) not in {core.jkey(f["sig"]) for f in fails}:
                fails.append({"sig": sig, "detail": bad, "case": {"fn": "execute_edits", "base": case["base"], "lo": max(case["lo"] + cands.index(s), 0) if s in cands else 0, "hi": (case["lo"] + cands.index(s) + 1) if s in cands else 1}})
    return {"ok": not fails, "failures": fails, "outcome": "edits-ok" if not fails else "near-miss", "nontrivial": hist[OUT] > 0, "n": n, "hist": hist}


def run(res, tier, seed):
    res.rule = (
        "all 3600 product ids through open_alos2 (summary attributes, image group names; image shapes rotate over pol x scan) and"
        " through decode_filename with every type x polarisation x scan shape [thorough: all 3600 ids = 1.5M names; quick: 48 ids];"
        " every date 2014-01-01..2049-12-31 in a scene id; all edit-distance-1 strings (substitution/insertion by 41 characters incl. line feed,"
        " deletion) and common multi-character decorations (.tif, .gz, .index, path prefixes ...) of 7 base identifiers, classified by a table-driven recogniser. Non-trivial near-miss batches contain at least"
        " one out-of-language string."
    )
    res.assumptions = ["two-digit years follow the 1969..2068 pivot (valid until 2064 for acquisition dates)", "file types other than IMG/LED/VOL/TRL with three capital letters are left undecided (the tables do not list file types)"]
    # products through open_alos2
    shapes_cycle = [[(pol, scan)] for pol in POLS[1:] for scan in [None, "F1", "F5", "B2", "B9"]] + [[("HH", "F1"), ("HH", "F2"), ("HV", "F1")], [("HH", None), ("VV", None)]]
    items = [[pid, shapes_cycle[i % len(shapes_cycle)]] for i, pid in enumerate(ALL_PIDS)]
    chunks = [{"fn": "execute_products", "items": items[i : i + 25]} for i in range(0, len(items), 25)]
    counts = {"products": 0, "names": 0, "dates": 0, "edits": 0}
    order = 0
    for idx, case, out in core.pool_map(__name__, "execute_products", chunks, chunksize=1):
        res.record({"fn": "execute_products", "first": case["items"][0], "n": len(case["items"])}, out, order=order)
        order += 1
        counts["products"] += out["n"]
    pids = ALL_PIDS if tier == "thorough" else ALL_PIDS[:: len(ALL_PIDS) // 48]
    chunks = [{"fn": "execute_names", "pids": pids[i : i + 8], "types": TYPES} for i in range(0, len(pids), 8)]
    for idx, case, out in core.pool_map(__name__, "execute_names", chunks, chunksize=1):
        res.record(case, out, order=order)
        order += 1
        counts["names"] += out["n"]
    chunks = [{"fn": "execute_dates", "start": f"{y}-01-01", "end": f"{y}-12-31", "orbit": f"{(y * 37) % 100000:05d}", "frame": f"{(y * 13) % 10000:04d}"} for y in range(2014, 2050)]
    for idx, case, out in core.pool_map(__name__, "execute_dates", chunks, chunksize=2):
        res.record(case, out, order=order)
        order += 1
        counts["dates"] += out["n"]
    chunks = []
    for b, (what, base) in enumerate(BASES):
        total = len(edits(base))
        chunks += [{"fn": "execute_edits", "base": b, "lo": lo, "hi": min(lo + 500, total)} for lo in range(0, total, 500)]
    hist = {IN: 0, OUT: 0, UNDECIDED: 0}
    for idx, case, out in core.pool_map(__name__, "execute_edits", chunks, chunksize=1):
        res.record(case, out, order=order)
        order += 1
        counts["edits"] += out["n"]
        for k, v in out["hist"].items():
            hist[k] += v
    res.extra.update({"identifiers_checked": counts, "near_miss_classes": hist})
