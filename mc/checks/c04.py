"""C04 - SAR leader metadata (DESIGN §4 C04).

Baseline (all fields distinct) + every single deviation (field x text-format
alphabet) + all fields deviated at once per alphabet index + structural
variants (attitude points, channels, map projection absent / each designator).
Every product is opened with open_alos2 and every /metadata leaf is compared
with the reference model (value, units, name, dims, group path).
"""
from mc import alphabets, core, synth, treecheck

ID = "C04"
LEVEL = "exploration"

# (record instance, layout) of the leader; k-indexed instances are expanded per structure
STATIC = [
    ("dataset_summary", "led.dataset_summary"),
    ("map_projection", "led.map_projection"),
    ("platform_position", "led.platform_position"),
    ("radiometric_data", "led.radiometric_data"),
    ("data_quality_summary", "led.dq_head"),
    ("dq_abs_geometric", "led.dq_abs_geometric"),
    ("facility_related_data_5", "led.facility_related_data_5"),
    ("file_descriptor", "led.file_descriptor"),
]
# counts / lengths / codes with structural meaning / date-time texts: not part of the generic alphabet
EXEMPT = {
    ("file_descriptor", "map_projection.number_of_records"),
    ("dataset_summary", "scene_center_time"),
    ("map_projection", "map_projection_designator"),
    ("platform_position", "datetime_of_first_point.date"),
    ("platform_position", "datetime_of_first_point.seconds_of_day"),
    ("data_quality_summary", "number_of_channels"),
    ("attitude_point", "time.day_of_year"),
    ("attitude_point", "time.millisecond_of_day"),
}


TIME_LEAVES = ("/metadata/attitude/attitude:time", "/metadata/attitude/rates:time")


def instances(n_att, n_chan):
    out = list(STATIC)
    out += [(f"attitude_point[{k}]", "led.attitude_point") for k in range(n_att)]
    out += [(f"dq_rel_radiometric[{j}]", "led.dq_calibration_uncertainty") for j in range(n_chan)]
    out += [(f"dq_rel_geometric[{j}]", "led.dq_misregistration_error") for j in range(n_chan)]
    return out


def value_fields(inst, lay_name):
    lay = synth.layout(lay_name)
    base = inst.split("[")[0]
    for f in lay.fields:
        if f["name"].startswith("preamble.") or synth.is_spare(f["name"]):
            continue
        if (base, f["name"]) in EXEMPT:
            continue
        yield f


N_ALL = 30  # >= the longest alphabet: every (field, alphabet entry) pair occurs in one all-at-once product
SPEC = {"level": "1.5", "images": [["HH", None, 1, 1]], "leader": {"n_att": 2, "n_chan": 2}}


def plan(tier, seed):
    cases = [{"spec": SPEC, "devs": [], "label": "baseline"}]
    per_field = 3 if tier == "quick" else 99
    insts = instances(2, 2)
    # all fields deviated at once, one product per alphabet index
    for j in range(N_ALL):
        devs = []
        for inst, lay_name in insts:
            for f in value_fields(inst, lay_name):
                alpha = alphabets.for_field(f, seed)
                if alpha:
                    label, b = alpha[j % len(alpha)]
                    devs.append(["led", inst, f["key"], {"hex": b.hex()}])
        cases.append({"spec": SPEC, "devs": devs, "label": f"all-at-once#{j}"})
    # single deviations
    for inst, lay_name in insts:
        for f in value_fields(inst, lay_name):
            alpha = alphabets.for_field(f, seed)
            if tier == "quick" and len(alpha) > per_field:
                # rotate through the alphabet across fields so that every alphabet entry is used
                start = f["idx"] % len(alpha)
                picks = sorted({(start + round(i * len(alpha) / per_field)) % len(alpha) for i in range(per_field)})
                alpha = [alpha[i] for i in picks]
            for label, b in alpha:
                cases.append({"spec": SPEC, "devs": [["led", inst, f["key"], {"hex": b.hex()}]], "label": f"{inst}.{f['key']}={label}"})
    # array-valued records: the first / last k elements (or all) hold zeros - "unused slot" heuristics must not apply
    lay = synth.layout("led.platform_position")
    pos = [f for f in lay.fields if f["key"].startswith("positions[")]
    for label, sel in (("last 1", range(27, 28)), ("last 5", range(23, 28)), ("last 27", range(1, 28)), ("first 3", range(0, 3)), ("all", range(0, 28)), ("every other", range(0, 28, 2))):
        for zero in ("0.0", "-0.0", "0.0000000000000E+00"):
            idx = {f"positions[{k}]." for k in sel}
            devs = [["led", "platform_position", f["key"], {"hex": zero.rjust(f["w"]).encode().hex()}] for f in pos if any(f["key"].startswith(i) for i in idx)]
            cases.append({"spec": SPEC, "devs": devs, "label": f"state vectors {label} = {zero}"})
    for k in (1, 2):
        devs = []
        for f in synth.layout("led.attitude_point").fields:
            if f["kind"] in "IF" and (("attitude_point", f["name"]) not in EXEMPT):
                devs.append(["led", f"attitude_point[{k - 1}]", f["key"], {"hex": "0".rjust(f["w"]).encode().hex()}])
        cases.append({"spec": SPEC, "devs": devs, "label": f"attitude point {k} all zero"})
    # geographic fields at the ends of their domain (a footprint across the antimeridian, the poles)
    mp = synth.layout("led.map_projection")
    lons = [f for f in mp.fields if f["key"].endswith("longitude")]
    lats = [f for f in mp.fields if f["key"].endswith("latitude")]
    for des in ("UTM-PROJECTION", "UPS-PROJECTION", "LCC-PROJECTION", "MER-PROJECTION"):
        for lv, lo in (((179.9, -179.8, -179.9, 179.8), "antimeridian"), ((180.0, -180.0, 180.0, -180.0), "+-180"), ((0.0, 359.9, 360.0, 0.1), "0/360"), ((-0.05, 0.05, -0.05, 0.05), "greenwich")):
            devs = [["led", "map_projection", f["key"], {"hex": f"{lv[i % 4]:.4f}".rjust(f["w"]).encode().hex()}] for i, f in enumerate(lons)]
            devs += [["led", "map_projection", f["key"], {"hex": f"{(89.9, -89.9, 90.0, -90.0)[i % 4]:.4f}".rjust(f["w"]).encode().hex()}] for i, f in enumerate(lats)]
            cases.append({"spec": {**SPEC, "level": "3.1" if des[:3] in ("LCC", "MER") else "1.5", "leader": {"n_att": 2, "n_chan": 2, "n_mp": 1, "designator": des}}, "devs": devs, "label": f"{des} longitudes {lo}, latitudes at the poles"})
    # structural variants
    for n_att in (1, 2, 3, 136):
        for n_chan in (1, 2, 16):
            cases.append({"spec": {**SPEC, "leader": {"n_att": n_att, "n_chan": n_chan}}, "devs": [], "label": f"n_att={n_att} n_chan={n_chan}"})
    for n_mp, des in ((0, "UTM-PROJECTION"), (1, "UTM-PROJECTION"), (1, "UPS-PROJECTION"), (1, "LCC-PROJECTION"), (1, "MER-PROJECTION"), (1, "utm-lower"), (1, "Mer-Mixed-Case")):
        for level in ("1.5", "1.1", "3.1"):
            cases.append({"spec": {**SPEC, "level": level, "leader": {"n_att": 2, "n_chan": 2, "n_mp": n_mp, "designator": des}}, "devs": [], "label": f"{level} n_mp={n_mp} {des}"})
    return cases


def execute(case):
    spec = treecheck.spec_from_case(case)
    baseline = treecheck.spec_from_case({"spec": case["spec"], "devs": []})
    files, resolved = synth.build(spec)
    names = synth.file_names(spec)
    changed = files[names["led"]] != synth.build(baseline)[0][names["led"]] if case["devs"] else True
    # attitude time stamps are C17's subject (one calendar convention); everything else under /metadata is compared
    out = treecheck.check_spec(spec, only=["/metadata"], ignore=TIME_LEAVES, files=files, resolved=resolved)
    fails = out["failures"]
    for f in fails:
        f["detail"] = f"{case['label']}: {f['detail']}"
    return {
        "ok": not fails,
        "failures": fails,
        "outcome": "ok" if not fails else fails[0]["sig"].get("kind", "leaf-mismatch"),
        "nontrivial": bool(changed),
        "n_leaves": out["n_leaves"],
        "unverified": out["unverified"][:20],
    }


def execute_replaced(case):
    """leader replaced in place (same size, optionally same modification time) between two opens in one process"""
    a = treecheck.spec_from_case({"spec": SPEC, "devs": []})
    b = treecheck.spec_from_case({"spec": SPEC, "devs": case["devs"]})
    out = treecheck.check_replaced(a, b, kind=case["fs"], keep_mtime=case["keep_mtime"], only=["/metadata"], ignore=TIME_LEAVES)
    fails = out["failures"]
    for f in fails:
        f["detail"] = f"leader replaced in place on {case['fs']} (modification time {'kept' if case['keep_mtime'] else 'new'}), second open: {f['detail']}"
        f["case"] = {**case, "fn": "execute_replaced"}
    return {"ok": not fails, "failures": fails[:3], "outcome": "replaced-ok" if not fails else "replaced-stale", "nontrivial": True, "n_leaves": out["n_leaves"], "unverified": []}


def run(res, tier, seed):
    res.rule = (
        "baseline + every single (field, value) deviation over the value fields of the exposed leader records (floats: 28 text"
        " formats incl. E/F notation, signs, justification, extremes; ints; texts; every enum code; complex pairs)"
        " [quick: 3 alphabet entries per field, rotated] + 30 all-fields-at-once products (every field x every alphabet entry) + structural variants"
        " (attitude points 1,2,3,136 x channels 1,2,16; map projection absent/UTM/UPS/LCC/MER x levels)."
        " The leader replaced in place by one of equal size (modification time kept / new) between two opens in one process, on 3 filesystems." " Non-trivial = the deviation changes at least one byte of the leader file; every case compares all /metadata leaves."
    )
    res.assumptions = ["layout tables and leaf rules are the reviewed frozen model of the format (DESIGN §3 E1/E2)", "counts, designator and date-time texts are handled by C05/C17, blanks by C20"]
    unv = set()
    leaves = 0
    for idx, case, out in core.pool_map(__name__, "execute", plan(tier, seed), chunksize=4):
        small = {"label": case["label"], "n_devs": len(case["devs"])}
        if len(case["devs"]) <= 2:
            small = case
        res.record(small, {**out, "failures": [{**f, "case": case if len(case["devs"]) <= 3 else {**case}} for f in out["failures"]]}, order=idx)
        unv.update(out["unverified"])
        leaves = max(leaves, out["n_leaves"])
    allat = next(c for c in plan(tier, seed) if c["label"] == "all-at-once#3")
    rep = [{"fs": fs, "keep_mtime": km, "devs": allat["devs"]} for fs in ("local", "mcfs", "file") for km in (True, False)]
    for idx, case, out in core.pool_map(__name__, "execute_replaced", rep, chunksize=1):
        res.record({"fn": "execute_replaced", "fs": case["fs"], "keep_mtime": case["keep_mtime"]}, out, order=10**6 + idx)
    res.extra["leaves_compared_per_tree"] = leaves
    res.extra["unverified_leaves"] = sorted(unv)[:50]
