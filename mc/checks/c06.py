"""C06 - records_per_chunk independence (DESIGN §4 C06).

Every (lines L, rpc) pair: the fully loaded snapshot of the tree must equal the
rpc=1 snapshot of the same product except for the advertised preferred chunk
size of image data, which must be {rows: min(rpc, L), columns: P}.  For L <= 3
all pairs are compared literally.  With and without an index cache written at
another rpc.
"""
from mc import core, env, harness, synth, treesnap

ID = "C06"
LEVEL = "exploration"


def rpcs(L):
    if L > 8000:  # request sizes around and beyond 8192 lines
        return [1024, 4096, 8192, 8193, L - 1, L, L + 1, 10**9]
    if L > 1000:  # more lines than the default request size: several requests at the default, too
        return [1, 7, 256, 1023, 1024, 1025, L, 4096]
    if L > 20:  # the many-chunks product: a read touches up to L chunks
        return [1, 2, 3, 7, 33, L - 1, L, 1024]
    return list(range(1, L + 5)) + [1024, 10**9]


def snap_and_chunks(tree, spec):
    snap = treesnap.snapshot(tree)
    chunks = {}
    for i, im in enumerate(spec["images"]):
        key = f"/imagery/{harness.group_name(im['pol'], im['scan'])}:data#meta"
        chunks[key] = snap[key][5]
        snap[key] = snap[key][:5]
    return snap, chunks


def expected_chunks(spec, rpc):
    out = {}
    for im in spec["images"]:
        key = f"/imagery/{harness.group_name(im['pol'], im['scan'])}:data#meta"
        out[key] = {"preferred_chunksizes": treesnap.canon({"rows": min(rpc, im["lines"]), "columns": im["pixels"]})}
    return out


def execute(case):
    level, L, P, cache_rpc = case["level"], case["L"], case["P"], case.get("cache_rpc")
    tc = "C*8" if level == "1.1" else "IU2"
    # a shorter and a longer image after the first one (state must not leak from image to image)
    images = [synth.image_spec("HH", None, L, P, tc), synth.image_spec("HV", None, max(1, L - 1), P + 1, tc), synth.image_spec("VV", None, L + 2, P, tc)]
    if case.get("bursts"):
        # SPECAN-style images whose descriptor holds a burst layout that is consistent with the line count
        nb, lb = case["bursts"]
        hdr = {"prefix_suffix_data_locators.number_of_burst_data": nb, "prefix_suffix_data_locators.number_of_lines_per_burst": lb, "scansar_burst_data_information.number_of_overlap_lines_with_adjacent_bursts": 1}
        images = [synth.image_spec("HH", "B1", nb * lb, P, tc, header=hdr), synth.image_spec("HV", "B1", nb * lb, P, tc, header=hdr)]
    spec = synth.product_spec(level, images=images)
    files, _ = synth.build(spec)
    if case.get("pad"):  # bytes behind the last record of every image (padding to a block size)
        for n in synth.file_names(spec)["img"]:
            files[n] = files[n] + b"\x00" * case["pad"]
    fails = []
    env.import_lib()
    env.wipe_cache()
    with harness.Product(files, case["fs"]) as prod:
        if cache_rpc is not None:
            try:
                prod.open(records_per_chunk=cache_rpc, create_cache=True)
            except Exception as e:
                return {"ok": False, "failures": [{"sig": {"kind": "cache-create-raises", "exc": type(e).__name__}, "detail": f"create_cache=True raises {type(e).__name__}: {e}"}], "outcome": "cache-create-raises"}
        snaps = {}
        for rpc in rpcs(L):
            try:
                tree = prod.open(records_per_chunk=rpc)
                # a partial read first: what a later full read returns must not depend on rpc either
                for im in spec["images"]:
                    tree[f"imagery/{harness.group_name(im['pol'], im['scan'])}/data"].isel(rows=0).values
                snaps[rpc], chunks = snap_and_chunks(tree, spec)
                again, _ = snap_and_chunks(tree, spec)
            except Exception as e:
                fails.append({"sig": {"kind": "open-or-load-raises", "exc": type(e).__name__}, "detail": f"{level} L={L} rpc={rpc}: {type(e).__name__}: {str(e)[:100]}"})
                snaps[rpc] = {"error": ("raises", type(e).__name__)}
                continue
            if again != snaps[rpc]:
                fails.append({"sig": {"kind": "second-load-differs"}, "detail": f"L={L} rpc={rpc}: loading the same tree twice gives different values"})
            want = expected_chunks(spec, rpc)
            if chunks != want:
                fails.append({"sig": {"kind": "preferred-chunks"}, "detail": f"L={L} rpc={rpc}: advertised {chunks} != {want}"})
        if case.get("pad") and all("error" in v for v in snaps.values()):
            # a reader that refuses padded files does so for every request size: nothing depends on records_per_chunk
            fails = [f for f in fails if f["sig"]["kind"] != "open-or-load-raises"]
        pairs = [(rpcs(L)[0], r) for r in rpcs(L)[1:]]
        if L <= 3:
            rs = rpcs(L)
            pairs = [(a, b) for i, a in enumerate(rs) for b in rs[i + 1 :]]
        for a, b in pairs:
            d = treesnap.diff(snaps[a], snaps[b])
            if d:
                fails.append({"sig": {"kind": "tree-differs", "leaf": d[0][0].split(":")[-1]}, "detail": f"{level} L={L} rpc {a} vs {b}: {treesnap.short(d, 3)}"})
    env.wipe_cache()
    return {"ok": not fails, "failures": fails, "outcome": "ok" if not fails else fails[0]["sig"]["kind"], "nontrivial": True, "pairs": len(pairs)}


def plan(tier):
    cases = []
    for level in ("1.5", "1.1"):
        for L in range(1, 7) if tier == "quick" else range(1, 11):
            for fs in ("mcfs", "local") if tier == "thorough" else ("mcfs",):
                cases.append({"level": level, "L": L, "P": 3, "fs": fs, "cache_rpc": None})
            if L in (3, 5):
                for nb, lb in ((3, 4), (4, 3), (2, 8)):
                    cases.append({"level": level, "L": nb * lb, "P": 2, "fs": "mcfs", "cache_rpc": None if L == 3 else 5, "bursts": [nb, lb]})
                for pad in (1, 512):
                    cases.append({"level": level, "L": L + 5, "P": 3, "fs": "mcfs", "cache_rpc": None, "pad": pad})
            if L == 6:
                cases.append({"level": level, "L": 100, "P": 2, "fs": "mcfs", "cache_rpc": None})
                cases.append({"level": level, "L": 1100 if level == "1.5" else 1030, "P": 2, "fs": "mcfs", "cache_rpc": None})
                if level == "1.5":
                    cases.append({"level": level, "L": 8300, "P": 1, "fs": "mcfs", "cache_rpc": None})
                # requests of 64 KiB and more on the LOCAL filesystem (whose filesystem objects compare equal from open to open)
                cases.append({"level": level, "L": 1100 if level == "1.5" else 1030, "P": 200 if level == "1.5" else 60, "fs": "local", "cache_rpc": None})
                if tier == "thorough":
                    cases.append({"level": level, "L": 2500, "P": 1, "fs": "local", "cache_rpc": 100})
            for cache_rpc in (1, 2, 4096) if tier == "thorough" else (2,):
                cases.append({"level": level, "L": L, "P": 3, "fs": "local", "cache_rpc": cache_rpc})
    return cases


def run(res, tier, seed):
    res.rule = (
        "L in 1..6 (thorough: 1..10) x rpc in {1..L+4, 1024, 1e9} x level {1.1 (C*8), 1.5 (IU2)}, three images of different size (shorter and longer than the first) per product;"
        " plus a 100-line product (reads touching up to 100 chunks) at rpc {1,2,3,7,33,99,100,1024} and a 1100-line (1.5) / 1030-line (1.1) product at rpc {1,7,256,1023,1024,1025,L,4096}; an 8300-line product at rpc {1024,4096,8192,8193,L-1,L,L+1,1e9}; 1100x200 / 1030x60 products on the local filesystem (requests of 64 KiB and more); SPECAN-style images whose burst layout is consistent with the line count (3x4, 4x3, 2x8), with and without a cache; image files with 1 / 512 bytes of padding behind the last record; every tree fully loaded and compared leaf by leaf with the rpc=1 tree (all pairs for L<=3); cache legs open the"
        " same product after create_cache=True at another rpc. Every case compares >= 8 trees, all non-trivial."
    )
    res.assumptions = ["identity of all pairs for L>3 follows from comparison with rpc=1 by transitivity"]
    pairs = 0
    for idx, case, out in core.pool_map(__name__, "execute", plan(tier), chunksize=1):
        res.record(case, out, order=idx)
        pairs += out.get("pairs", 0)
    res.extra["tree_pairs_compared"] = pairs
