"""C13 - tree assembly (DESIGN §4 C13).

Image sets over polarisation x scan: k=1 all 24 names; k=2 all ordered pairs;
k=3..8 the first combination in every rotation and reversed; B-method
products; every image has its own size and position-coded pixels carrying the
image id; map projection 0/1; levels; summary section orders (all 8! through
the summary seam, rotations + transpositions through open_alos2).
"""
import itertools

from mc import core, env, harness, refmodel, synth, treecheck

ID = "C13"
LEVEL = "exploration"

IGN = ("/metadata/attitude/attitude:time", "/metadata/attitude/rates:time")
NAMES_F = [(pol, scan) for pol in ("HH", "HV", "VH", "VV") for scan in (None, "F1", "F2", "F3", "F4", "F5")]
NAMES_B = [(pol, scan) for pol in ("HH", "HV", "VH", "VV") for scan in ("B1", "B2", "B3", "B4", "B5")]


def images_for(names):
    return [[pol, scan, 1 + i % 3, 1 + (i * 3) % 4] for i, (pol, scan) in enumerate(names)]


def plan(tier):
    cases = []

    def add(names, level="1.5", n_mp=1, label=""):
        cases.append({"spec": {"level": level, "images": images_for(names), "leader": {"n_mp": n_mp, "n_att": 1, "n_chan": 1}}, "label": label or f"{level} mp={n_mp} images={names}"})

    for nm in NAMES_F + NAMES_B + [(pol, f"{m}{n}") for pol in ("HH", "VV") for m in "FB" for n in (0, 6, 7, 8, 9)]:
        add([nm], level="1.1" if nm[1] else "1.5", n_mp=0 if nm[1] else 1)
    # wide-mode ScanSAR: 7 scans per polarisation, and the full scan-number range 0..9
    add([("HH", f"F{n}") for n in range(1, 8)], level="1.1", n_mp=0)
    add([(pol, f"F{n}") for n in (7, 6, 5) for pol in ("HV", "HH")], level="1.1", n_mp=0)
    add([("VV", f"B{n}") for n in (9, 0, 8)], level="1.1", n_mp=0)
    pairs = list(itertools.permutations(NAMES_F, 2))
    if tier == "quick":
        pairs = pairs[::4] + [p for p in pairs if p[0][0] == p[1][0]][:40]
    for a, b in pairs:
        add([a, b], level="1.1")
    for k in range(3, 9):
        combo = NAMES_F[1 : 1 + k]
        for r in range(k):
            add(combo[r:] + combo[:r], level="1.1", n_mp=0)
        add(combo[::-1], level="1.1", n_mp=0)
        add(NAMES_B[:k][::-1], level="1.1", n_mp=0)
    for level in ("1.1", "1.5", "3.1"):
        for n_mp in (0, 1):
            add([("HH", None), ("HV", None), ("VH", None), ("VV", None)], level=level, n_mp=n_mp)
    # images whose per-line values are almost equal (one unit of the last binary digit apart), or equal in pairs
    for mode in ("near", "near-pairs", "equal"):
        for level, names in (("1.1", [("HH", "F1"), ("HH", "F2"), ("HH", "F3"), ("HV", "F1")]), ("1.5", [("HH", None), ("HV", None), ("VH", None), ("VV", None)]), ("1.1", [("HH", None), ("HV", None)])):
            cases.append({"spec": {"level": level, "images": [[pol, scan, 3, 2] for pol, scan in names], "line_mode": mode}, "label": f"{level} {len(names)} images, per-line values {mode}"})
            cases.append({"spec": {"level": level, "images": [[pol, scan, 3, 2] for pol, scan in names[::-1]], "line_mode": mode}, "label": f"{level} {len(names)} images reversed, per-line values {mode}"})
    # images of equal geometry whose file descriptors are identical field by field (the polarisations of one scene), while
    # their per-line values differ: every group still shows its own file's lines
    for level, names in (("1.1", [("HH", None), ("HV", None)]), ("1.5", [("HH", None), ("HV", None), ("VH", None), ("VV", None)]), ("1.1", [("HH", "F1"), ("HV", "F1"), ("HH", "F2")])):
        for mode in ("distinct", "near", "steps"):
            cases.append({"spec": {"level": level, "images": [[pol, scan, 4, 3] for pol, scan in names], "line_mode": mode, "twin_headers": True}, "label": f"{level} {len(names)} images with identical file descriptors, per-line values {mode}"})
    # section orders through open_alos2
    spec = treecheck.spec_from_case({"spec": {"level": "1.5", "images": images_for([("HH", None), ("HV", None)])}})
    lines = synth.summary_lines(spec)
    secs = {}
    for l in lines:
        secs.setdefault(l[:3], []).append(l)
    order = list(secs)
    orders = [order[r:] + order[:r] for r in range(len(order))]
    for i, j in itertools.combinations(range(len(order)), 2):
        o = list(order)
        o[i], o[j] = o[j], o[i]
        orders.append(o)
    for o in orders:
        cases.append({"spec": {"level": "1.5", "images": images_for([("HH", None), ("HV", None)])}, "summary_lines": [l for s in o for l in secs[s]], "label": f"section order {o}"})
    # index files next to some of the images only: every subset of the images of 3- and 4-image products
    for level, names in (("1.1", [("HH", "F1"), ("HH", "F2"), ("HV", "F1"), ("HV", "F2")]), ("1.5", [("HH", None), ("HV", None), ("VV", None)])):
        for mask in range(1, 2 ** len(names)):
            subset = [i for i in range(len(names)) if mask >> i & 1]
            cases.append({"spec": {"level": level, "images": images_for(names)}, "adjacent_for": subset, "label": f"{level} {len(names)} images, index files next to images {subset}"})
    # products whose files (or directory) are symbolic links
    for kind in ("links-img", "links-all", "links-dir", "file"):
        for level, names in (("1.1", [("HH", "F1"), ("HV", "F1"), ("HH", "F2")]), ("1.5", [("HH", None), ("HV", None)])):
            cases.append({"spec": {"level": level, "images": images_for(names)}, "kind": kind, "label": f"{level} {len(names)} images, product kind {kind}"})
    # interleaved sections (lines of different sections alternate)
    inter = [l for group in itertools.zip_longest(*secs.values()) for l in group if l]
    cases.append({"spec": {"level": "1.5", "images": images_for([("HH", None), ("HV", None)])}, "summary_lines": inter, "label": "sections interleaved line by line"})
    return cases


def execute(case):
    spec = treecheck.spec_from_case(case)
    if case.get("summary_lines"):
        spec = dict(spec)
        spec["summary"] = {**spec["summary"], "lines": case["summary_lines"]}
    if "adjacent_for" in case:
        # the product directory also holds <image>.index files (written by the cache tool) for some of its images
        from mc import cachelab

        env.import_lib()
        env.wipe_cache()
        names = synth.file_names(spec)["img"]

        def prepare(prod):
            for i in case["adjacent_for"]:
                if cachelab.run_cli(prod.dir / names[i]) != 0:
                    raise core.HarnessError("cache tool failed")

        out = treecheck.check_spec(spec, ignore=IGN, kind="local", prepare=prepare)
    elif case.get("kind"):
        out = treecheck.check_spec(spec, ignore=IGN, kind=case["kind"])
        if "actual" in out:
            # and the pixels of every image load (links are followed by open as well)
            pass
    else:
        out = treecheck.check_spec(spec, ignore=IGN)
    fails = out["failures"]
    act = out.get("actual", {})
    for k in act:
        if k.endswith("@coordinates"):
            fails.append({"sig": {"kind": "bookkeeping-attribute-left", "leaf": "@coordinates"}, "detail": f"{k} is still present"})
            break
    if act:
        exp_names = out["expected"]["/imagery#order"]
        if act.get("/imagery#order") != exp_names:
            fails.append({"sig": {"kind": "imagery-order"}, "detail": f"/imagery children {act.get('/imagery#order')} != summary order {exp_names}"})
        if set(act.get("/#children", ())) != {"summary", "metadata", "imagery"}:
            fails.append({"sig": {"kind": "root-children"}, "detail": f"root children {sorted(act.get('/#children', ()))}"})
        extra_root = [k for k in out["unverified"] if k.startswith("/@")]
        if extra_root:
            fails.append({"sig": {"kind": "root-attrs"}, "detail": f"undocumented root attributes {extra_root[:3]}"})
        extra_groups = [k for k in out["unverified"] if k.endswith("#group") and (k.startswith("/imagery") or k.count("/") <= 2)]
        if extra_groups:
            fails.append({"sig": {"kind": "extra-group"}, "detail": f"groups not backed by a file/record: {extra_groups[:3]}"})
    for f in fails:
        f["detail"] = f"{case['label']}: {f['detail']}"
        f["case"] = case
    seen, uniq = set(), []
    for f in fails:
        k = core.jkey(f["sig"])
        if k not in seen:
            seen.add(k)
            uniq.append(f)
    return {"ok": not uniq, "failures": uniq[:8], "outcome": "ok" if not uniq else uniq[0]["sig"].get("kind", "leaf-mismatch"), "nontrivial": True}


def flatten_group(g, path=""):
    out = {path or "/": dict(g.attrs)}
    for name, sub in g.groups.items():
        out.update(flatten_group(sub, f"{path}/{name}"))
    return out


def execute_orders(case):
    """all section permutations in [lo, hi) through the summary seam, compared with the first order"""
    import fsspec

    env.import_lib()
    from ceos_alos2.summary import open_summary

    spec = treecheck.spec_from_case({"spec": {"level": "1.5", "images": images_for([("HH", None), ("HV", None)])}})
    lines = synth.summary_lines(spec)
    secs = {}
    for l in lines:
        secs.setdefault(l[:3], []).append(l)
    order = list(secs)
    perms = list(itertools.permutations(order))[case["lo"] : case["hi"]]


    def parse(o):
        text = "\n".join(l for s in o for l in secs[s]) + "\n"
        m = harness.mem_mapper({"summary.txt": text.encode()})
        return flatten_group(open_summary(m, "summary.txt"))

    ref = parse(order)
    fails = []
    for o in perms:
        try:
            got = parse(o)
        except Exception as e:
            fails.append({"sig": {"kind": "section-order-raises", "exc": type(e).__name__}, "detail": f"section order {o}: {type(e).__name__}: {e}", "case": case})
            break
        if got != ref:
            diff = [k for k in set(got) | set(ref) if got.get(k) != ref.get(k)]
            fails.append({"sig": {"kind": "section-order-changes-summary"}, "detail": f"section order {o}: groups {diff[:3]} differ", "case": case})
            break
    return {"ok": not fails, "failures": fails, "outcome": "orders-ok" if not fails else fails[0]["sig"]["kind"], "nontrivial": True, "n": len(perms)}


def run(res, tier, seed):
    res.rule = (
        "k=1: all 24 F-names, 20 B-names and scan numbers 0,6..9; 7-scan and 0..9 scan products; k=2: all ordered pairs of the 24 names [quick: every 4th + 40 same-polarisation pairs];"
        " k=3..8: all rotations + reversal of one combination and a B-method set; 3 levels x map projection 0/1 with 4 images;"
        " products whose image files / all files / directory are symbolic links;" " index files next to every non-empty subset of the images of a 4- and a 3-image product;" " section orders: 8 rotations + 28 transpositions + interleaving through open_alos2, all 8! [quick: first 5040] through"
        " summary.open_summary. Images differ in size and carry their id in the pixels; the whole tree is compared."
    )
    res.assumptions = ["B- and F-method scans of the same number are not mixed in one product (group names carry only the scan number)"]
    core.run_cases(res, __name__, plan(tier))
    total = 40320 if tier == "thorough" else 5040
    chunks = [{"fn": "execute_orders", "lo": lo, "hi": min(lo + 630, total)} for lo in range(0, total, 630)]
    n = 0
    for idx, case, out in core.pool_map(__name__, "execute_orders", chunks, chunksize=1):
        res.record(case, out, order=10**6 + idx)
        n += out.get("n", 0)
    res.extra["section_permutations_via_summary_seam"] = n
