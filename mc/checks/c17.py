"""C17 - one calendar convention, stored resolution kept (DESIGN §4 C17).

Every instant of the enumerated set is written *simultaneously* into every
time-bearing field of a product (image line (year, day, ms) and us-of-day,
attitude point (day, ms), platform-position first point, scene-centre text,
volume creation text, summary date-times).  Each decoded leaf must equal the
instant truncated to the field's resolution - hence they all agree pairwise.
"""
import datetime as dt
import struct

import numpy as np

from mc import core, env, harness, refmodel, synth, treecheck

ID = "C17"
LEVEL = "exploration"

TIMES = ((0, 0, 0, 0), (12, 34, 56, 789), (23, 59, 59, 999))
US_EXTRA = (0, 1, 999)  # microseconds added below the millisecond for the us-of-day stamp
# the millisecond stamp may also be AHEAD of the microsecond counter (a stamp rounded to the nearest millisecond / rounded up)
US_SWEEP = (0, 1, 999, -1, -500, 499, -300)


def days(tier):
    out = []
    for y in range(2014, 2050):
        leap = y % 4 == 0
        if tier == "thorough":
            ds = range(1, 367 if leap else 366)
        else:
            ds = [1, 2, 59, 60, 61, 365] + ([366] if leap else [])
        out += [(y, d) for d in ds]
    return out


def plan(tier):
    cases = []
    dd = days(tier)
    for i in range(0, len(dd), 6):
        cases.append({"days": dd[i : i + 6]})
    return cases


def ns_of(d):
    return refmodel.to_ns(d)


FIELDS = ("line", "attitude", "first_point", "scene_center", "creation", "summary")


def one(level, y, doy, hmsm, us_extra, other=None, pre=()):
    """other = (field, (y, doy, hmsm)): that one time-bearing field holds another instant than the rest (each field must
    decode to its own instant; only the attitude points, which store no year, take theirs from the first point)"""

    def parts(yy, dd, hm):
        h, mi, sec, ms = hm
        date = dt.date(yy, 1, 1) + dt.timedelta(days=dd - 1)  # day-of-year 1 = 1 January
        inst = dt.datetime(date.year, date.month, date.day, h, mi, sec, ms * 1000)
        return {"y": yy, "doy": dd, "ms": ms, "date": date, "inst": inst, "ms_of_day": ((h * 60 + mi) * 60 + sec) * 1000 + ms}

    base = parts(y, doy, hmsm)
    P = {f: base for f in FIELDS}
    if other is not None:
        P = {**P, other[0]: parts(*other[1])}
    spec = treecheck.spec_from_case({"spec": {"level": level, "images": [["HH", None, 2, 1]], "leader": {"n_att": 2}}})
    q = P["line"]
    spec = synth.with_dev(spec, "img0", "line", "sensor_acquisition_date", struct.pack(">III", q["y"], q["doy"], q["ms_of_day"]), None)
    if level == "1.1":
        spec = synth.with_dev(spec, "img0", "line", "sensor_acquisition_date_microseconds", struct.pack(">Q", q["ms_of_day"] * 1000 + us_extra), None)
    q = P["attitude"]
    for k in range(2):
        spec = synth.with_dev(spec, "led", f"attitude_point[{k}]", "time.day_of_year", q["doy"])
        spec = synth.with_dev(spec, "led", f"attitude_point[{k}]", "time.millisecond_of_day", q["ms_of_day"])
    # the platform-position record carries the year for the attitude points: first point = 1 Jan + offset
    q = P["first_point"]
    spec = synth.with_dev(spec, "led", "platform_position", "datetime_of_first_point.date", f"{q['date'].year:04d}  {q['date'].month:02d}  {q['date'].day:02d}".encode())
    spec = synth.with_dev(spec, "led", "platform_position", "datetime_of_first_point.seconds_of_day", f"{q['ms_of_day'] / 1000:.3f}")
    q = P["scene_center"]
    spec = synth.with_dev(spec, "led", "dataset_summary", "scene_center_time", q["inst"].strftime("%Y%m%d%H%M%S") + f"{q['ms']:03d}")
    q = P["creation"]
    spec = synth.with_dev(spec, "vol", "volume_descriptor", "logical_volume_creation_datetime", q["inst"].strftime("%Y%m%d%H%M%S") + f"{q['ms'] // 10:02d}")
    q = P["summary"]
    lines = synth.summary_lines(spec)
    txt = q["inst"].strftime("%Y%m%d %H:%M:%S") + f".{q['ms']:03d}"
    lines = [f'Img_SceneCenterDateTime="{txt}"' if l.startswith("Img_SceneCenterDateTime") else l for l in lines]
    lines = [f'Lbi_ObservationDate="{q["inst"].strftime("%Y%m%d")}"' if l.startswith("Lbi_ObservationDate") else l for l in lines]
    spec = dict(spec)
    spec["summary"] = {**spec["summary"], "lines": lines}
    if pre:
        env.import_lib()
        env.wipe_cache()
    out = treecheck.check_spec(spec, pre=pre)
    fails = list(out["failures"])
    inst, ms = base["inst"], base["ms"]
    if "actual" in out:
        act = out["actual"]

        def want(field, floor_cs=False):
            q = P[field]
            return ns_of(q["inst"]) - ((q["ms"] % 10) * 10**6 if floor_cs else 0)

        def leaf_vals(key):
            return [v[1] for v in act.get(key, {}).get("values", [])]

        def instant_of(text):
            return ns_of(dt.datetime.fromisoformat(text))

        # attitude points store (day, ms): their year is the first point's
        qa, qf = P["attitude"], P["first_point"]
        att = ns_of(dt.datetime(qf["date"].year, 1, 1) + dt.timedelta(days=qa["doy"] - 1, milliseconds=qa["ms_of_day"]))
        checks = [
            ("/imagery/HH:sensor_acquisition_date", leaf_vals("/imagery/HH:sensor_acquisition_date"), [want("line")] * 2),
            ("/metadata/attitude/attitude:time", leaf_vals("/metadata/attitude/attitude:time"), [att] * 2),
            ("/metadata/attitude/rates:time", leaf_vals("/metadata/attitude/rates:time"), [att] * 2),
        ]
        if level == "1.1":
            q = P["line"]
            day0 = ns_of(dt.datetime(q["date"].year, q["date"].month, q["date"].day))
            checks.append(("/imagery/HH:sensor_acquisition_date_microseconds", leaf_vals("/imagery/HH:sensor_acquisition_date_microseconds"), [day0 + (q["ms_of_day"] * 1000 + us_extra) * 1000] * 2))
        for key, w in (
            ("/metadata/platform_position@datetime_of_first_point", want("first_point")),
            ("/metadata/dataset_summary@scene_center_time", want("scene_center")),
            ("/@creation_datetime", want("creation", floor_cs=True)),
            ("/summary/image_information@SceneCenterDateTime", want("summary")),
        ):
            v = act.get(key)
            try:
                got = [instant_of(v[1])] if v else ["missing"]
            except Exception:
                got = [f"unparsable {v}"]
            checks.append((key, got, [w]))
        v = act.get("/summary/label_information@ObservationDate")
        if not v or v[1] != P["summary"]["date"].isoformat():
            fails.append({"sig": {"leaf": "/summary/label_information@ObservationDate"}, "detail": f"ObservationDate {v} != {P['summary']['date'].isoformat()}"})
        for key, got, w in checks:
            if got != w:
                sig = {"leaf": "/metadata/attitude/*:time[*]" if "/attitude/" in key else key}
                if got and w and isinstance(got[0], int):
                    sig["delta_ns"] = got[0] - w[0]
                fails.append({"sig": sig, "detail": f"{key}: decoded {got[:1]} != instant {w[:1]} ({inst.isoformat()}, day {doy} of {y}{'; ' + other[0] + ' holds ' + P[other[0]]['inst'].isoformat() if other else ''})"})
    # dedupe by signature
    seen, uniq = set(), []
    for f in fails:
        k = core.jkey(f["sig"])
        if k not in seen:
            seen.add(k)
            f["detail"] = f"{level} {y}-{doy:03d} {hmsm}{' through the index cache' if pre else ''}: {f['detail']}"
            f["case"] = {"days": [[y, doy]]}
            uniq.append(f)
    return uniq


def many_lines(case):
    """an image with more than 1024 lines, every line stamped with the same fractional-second instant"""
    level, L = case["level"], case["lines"]
    y, doy, (h, mi, s, ms) = 2024, 60, (23, 59, 59, 999)
    ms_of_day = ((h * 60 + mi) * 60 + s) * 1000 + ms
    date = dt.date(y, 1, 1) + dt.timedelta(days=doy - 1)
    inst = dt.datetime(date.year, date.month, date.day, h, mi, s, ms * 1000)
    spec = treecheck.spec_from_case({"spec": {"level": level, "images": [["HH", None, L, 1]], "leader": {"n_att": 1, "n_chan": 1}}})
    spec = synth.with_dev(spec, "img0", "line", "sensor_acquisition_date", struct.pack(">III", y, doy, ms_of_day), None)
    if level == "1.1":
        spec = synth.with_dev(spec, "img0", "line", "sensor_acquisition_date_microseconds", struct.pack(">Q", ms_of_day * 1000 + 7), None)
    out = treecheck.check_spec(spec, only=["/imagery"], open_kw={"records_per_chunk": case["rpc"]} if case["rpc"] else None)
    fails = out["failures"]
    act = out.get("actual", {})
    vals = [v[1] for v in act.get("/imagery/HH:sensor_acquisition_date", {}).get("values", [])]
    if act and vals != [ns_of(inst)] * L:
        bad = next((i for i, v in enumerate(vals) if v != ns_of(inst)), None)
        fails.append({"sig": {"kind": "many-lines-time", "leaf": "/imagery/HH:sensor_acquisition_date"}, "detail": f"line {bad}: {vals[bad] if bad is not None else len(vals)} != {ns_of(inst)}"})
    for f in fails:
        f["detail"] = f"{level} image of {L} lines rpc={case['rpc']}: {f['detail']}"
        f["case"] = {**case, "fn": "many_lines"}
    return {"ok": not fails, "failures": fails[:4], "outcome": "many-lines-ok" if not fails else "many-lines-mismatch", "nontrivial": True, "n": 1}


# times of day at every order of magnitude of the ms / us counters (a counter below 1000, 60000, 86400, 3.6e6 ... is
# where a unit mix-up or a truncated division shows)
SWEEP_MS = (1, 999, 1000, 1001, 30000, 59999, 60000, 86399, 86400, 86401, 3_599_999, 3_600_000, 36_000_000, 43_200_000, 86_399_000, 86_399_998)
SWEEP_DAYS = ((2016, 60), (2021, 168), (2049, 365), (2014, 1))
# digit strings that look like something else at another alignment of the compact 'YYYYMMDDhhmmssfff' text: a leap second
# ('235960') shifted by two or three digits, a day/month boundary, all nines / zeros
LOOKALIKE_HMSM = ((12, 23, 59, 600), (12, 23, 59, 605), (7, 23, 59, 609), (9, 12, 35, 960), (20, 22, 35, 960), (23, 59, 59, 600), (0, 23, 59, 60), (10, 10, 10, 101), (19, 59, 59, 999), (12, 31, 23, 595), (1, 1, 1, 1), (20, 20, 20, 202))


def sweep(case):
    fails, n, seen = [], 0, set()
    y, doy = case["day"]
    for i, msod in enumerate(SWEEP_MS):
        hmsm = (msod // 3_600_000, msod // 60000 % 60, msod // 1000 % 60, msod % 1000)
        for level in ("1.5", "1.1"):
            n += 1
            for f in one(level, y, doy, hmsm, US_SWEEP[i % 7] if msod > 0 else 0):
                k = core.jkey(f["sig"])
                if k not in seen:
                    seen.add(k)
                    f["case"] = {"fn": "sweep", "day": [y, doy]}
                    fails.append(f)
    return {"ok": not fails, "failures": fails, "outcome": "ok" if not fails else "mismatch", "nontrivial": True, "n": n}


def independent(case):
    """one time-bearing field holds an instant of another year than all the others (both directions across new year)"""
    fails, n, seen = [], 0, set()
    a, b = (2021, 1, (0, 0, 5, 120)), (2020, 366, (23, 59, 50, 500))
    for base, oth in ((a, b), (b, a)):
        for field in FIELDS:
            for level in ("1.5", "1.1"):
                n += 1
                for f in one(level, *base, 7, other=(field, oth)):
                    k = core.jkey(f["sig"])
                    if k not in seen:
                        seen.add(k)
                        f["case"] = {"fn": "independent"}
                        fails.append(f)
    return {"ok": not fails, "failures": fails, "outcome": "ok" if not fails else "mismatch", "nontrivial": True, "n": n}


def cached(case):
    """the same instants read back through an index cache written by the previous open"""
    fails, n, seen = [], 0, set()
    y, doy = case["day"]
    for i, msod in enumerate((1, 999, 86399, 43_200_789, 86_399_999)):
        hmsm = (msod // 3_600_000, msod // 60000 % 60, msod // 1000 % 60, msod % 1000)
        for level in ("1.5", "1.1"):
            n += 1
            for f in one(level, y, doy, hmsm, US_EXTRA[i % 3], pre=[{"create_cache": True}]):
                k = core.jkey(f["sig"])
                if k not in seen:
                    seen.add(k)
                    f["case"] = {"fn": "cached", "day": [y, doy]}
                    fails.append(f)
    return {"ok": not fails, "failures": fails, "outcome": "ok" if not fails else "mismatch", "nontrivial": True, "n": n}


def lookalikes(case):
    fails, n, seen = [], 0, set()
    y, doy = case["day"]
    for i, hmsm in enumerate(LOOKALIKE_HMSM):
        for level in ("1.5", "1.1"):
            n += 1
            for f in one(level, y, doy, hmsm, US_EXTRA[i % 3]):
                k = core.jkey(f["sig"])
                if k not in seen:
                    seen.add(k)
                    f["case"] = {"fn": "lookalikes", "day": [y, doy]}
                    fails.append(f)
    return {"ok": not fails, "failures": fails, "outcome": "ok" if not fails else "mismatch", "nontrivial": True, "n": n}


ATT_SEQS = ((365, 1, 2), (366, 1, 2), (364, 365, 366), (1, 365, 1), (2, 1, 365), (60, 59, 61), (1, 1, 1), (365, 365, 1), (10, 200, 30))


def attitude_days(case):
    """attitude points carry (day of year, ms of day) each on its own: sequences that run over the end of the year, backwards,
    or repeat must decode point by point (year = the first point's), whatever the neighbouring points hold"""
    fy = case["year"]
    fails = []
    for seq in ATT_SEQS:
        spec = treecheck.spec_from_case({"spec": {"level": "1.5", "images": [["HH", None, 1, 1]], "leader": {"n_att": len(seq), "n_chan": 1}}})
        spec = synth.with_dev(spec, "led", "platform_position", "datetime_of_first_point.date", f"{fy:04d}  07  01".encode())
        spec = synth.with_dev(spec, "led", "platform_position", "datetime_of_first_point.seconds_of_day", "12.5")
        for k, d in enumerate(seq):
            spec = synth.with_dev(spec, "led", f"attitude_point[{k}]", "time.day_of_year", d)
            spec = synth.with_dev(spec, "led", f"attitude_point[{k}]", "time.millisecond_of_day", 1000 * (k + 1) + 7)
        files, _ = synth.build(spec)
        with harness.Product(files, "mcfs") as prod:
            try:
                tree = prod.open()
                got = {g: [int(v) for v in np.asarray(tree[f"metadata/attitude/{g}"]["time"].values).astype("datetime64[ns]").astype("int64")] for g in ("attitude", "rates")}
            except Exception as e:
                fails.append({"sig": {"kind": "attitude-days-raises", "exc": type(e).__name__}, "detail": f"first point {fy}, attitude days {seq}: {type(e).__name__}: {str(e)[:100]}", "case": {**case, "fn": "attitude_days"}})
                continue
        for g, vals in got.items():
            for k, d in enumerate(seq):
                want = ns_of(dt.datetime(fy, 1, 1) + dt.timedelta(days=d - 1, milliseconds=1000 * (k + 1) + 7))
                if k >= len(vals) or vals[k] != want:
                    delta = (vals[k] - want) if k < len(vals) else None
                    sig = {"leaf": "/metadata/attitude/*:time[*]", "delta_ns": delta}
                    if core.jkey(sig) not in {core.jkey(f["sig"]) for f in fails}:
                        fails.append({"sig": sig, "detail": f"first point {fy}, attitude days {seq}: point {k} of {g} is off by {delta} ns", "case": {**case, "fn": "attitude_days"}})
    return {"ok": not fails, "failures": fails, "outcome": "ok" if not fails else "mismatch", "nontrivial": True, "n": len(ATT_SEQS)}


def attitude_ms(case):
    """130 attitude points of one day, each with its own millisecond of day: the last 65 milliseconds of the day and 65 spread
    odd values - a float detour (seconds as float64, times 1e9) is off by a few ns for some of them on the later days of a year"""
    fy, day = case["year"], case["day"]
    ms = [86_399_999 - j for j in range(65)] + [((j + 1) * 1_329_257) % 86_400_000 | 1 for j in range(65)]
    spec = treecheck.spec_from_case({"spec": {"level": "1.5", "images": [["HH", None, 1, 1]], "leader": {"n_att": len(ms), "n_chan": 1}}})
    spec = synth.with_dev(spec, "led", "platform_position", "datetime_of_first_point.date", f"{fy:04d}  01  02".encode())
    spec = synth.with_dev(spec, "led", "platform_position", "datetime_of_first_point.seconds_of_day", "12.5")
    for k, m in enumerate(ms):
        spec = synth.with_dev(spec, "led", f"attitude_point[{k}]", "time.day_of_year", day)
        spec = synth.with_dev(spec, "led", f"attitude_point[{k}]", "time.millisecond_of_day", m)
    files, _ = synth.build(spec)
    fails = []
    with harness.Product(files, "mcfs") as prod:
        try:
            tree = prod.open()
            got = {g: [int(v) for v in np.asarray(tree[f"metadata/attitude/{g}"]["time"].values).astype("datetime64[ns]").astype("int64")] for g in ("attitude", "rates")}
        except Exception as e:
            return {"ok": False, "failures": [{"sig": {"kind": "attitude-ms-raises", "exc": type(e).__name__}, "detail": f"{fy} day {day}: {type(e).__name__}: {str(e)[:100]}", "case": {**case, "fn": "attitude_ms"}}], "outcome": "raises", "nontrivial": True, "n": 1}
    for g, vals in got.items():
        for k, m in enumerate(ms):
            want = ns_of(dt.datetime(fy, 1, 1) + dt.timedelta(days=day - 1, milliseconds=m))
            if k >= len(vals) or vals[k] != want:
                delta = (vals[k] - want) if k < len(vals) else None
                sig = {"leaf": "/metadata/attitude/*:time[*]", "delta_ns": delta}
                if core.jkey(sig) not in {core.jkey(f["sig"]) for f in fails}:
                    fails.append({"sig": sig, "detail": f"{fy} day {day}: attitude point {k} of {g} (millisecond {m}) is off by {delta} ns", "case": {**case, "fn": "attitude_ms"}})
    return {"ok": not fails, "failures": fails, "outcome": "ok" if not fails else "mismatch", "nontrivial": True, "n": 1}


def tz_sweep(case):
    """the same instants under local time zones with daylight saving (nothing in the files is local time)"""
    import datetime as _dt

    fails, n, seen = [], 0, set()
    with env.timezone(case["tz"]):
        for mo, d in env.TZ_DAYS:
            doy = (_dt.date(2021, mo, d) - _dt.date(2021, 1, 1)).days + 1
            for hh in (0, 1, 2, 3):
                n += 1
                for f in one(case["level"], 2021, doy, (hh, 30, 5, 120), 7):
                    k = core.jkey(f["sig"])
                    if k not in seen:
                        seen.add(k)
                        f["detail"] = f"TZ={case['tz']}: {f['detail']}"
                        f["case"] = {**case, "fn": "tz_sweep"}
                        fails.append(f)
    return {"ok": not fails, "failures": fails, "outcome": "ok" if not fails else "mismatch", "nontrivial": True, "n": n}


FIRST_POINT_SECONDS = ("0.000001", "0.0000004", "0.9999996", "59.9999996", "86399.5", "86399.999999", "86399.9999996", "8.6399999E+04", "8.639999999999999E+04", "4.32E+04", "1", "86399")


def first_point(case):
    """decimal seconds of the platform-position first point, up to the last representable instant of the day"""
    y, mo, d = case["date"]
    fails = []
    # the date is three 4-character integers: zero-padded ("2016  01  16") and blank-padded ("2016   1  16") are the same date
    date_text = (f"{y:04d}  {mo:02d}  {d:02d}" if not case.get("blank_padded") else f"{y:4d}{mo:4d}{d:4d}").encode()
    for text in FIRST_POINT_SECONDS if not case.get("blank_padded") else FIRST_POINT_SECONDS[-3:]:
        spec = treecheck.spec_from_case({"spec": {"level": "1.5", "images": [["HH", None, 1, 1]], "leader": {"n_att": 1, "n_chan": 1}}})
        spec = synth.with_dev(spec, "led", "platform_position", "datetime_of_first_point.date", date_text)
        spec = synth.with_dev(spec, "led", "platform_position", "datetime_of_first_point.seconds_of_day", text)
        files, _ = synth.build(spec)
        with harness.Product(files, "mcfs") as prod:
            try:
                tree = prod.open()
                got = tree["metadata/platform_position"].attrs["datetime_of_first_point"]
                got_ns = ns_of(dt.datetime.fromisoformat(got))
            except Exception as e:
                fails.append({"sig": {"kind": "first-point-raises", "exc": type(e).__name__}, "detail": f"first point {y}-{mo}-{d} + {text} s: {type(e).__name__}: {str(e)[:100]}", "case": {**case, "fn": "first_point"}})
                continue
        want_ns = ns_of(dt.datetime(y, mo, d)) + round(float(text) * 1e6) * 1000
        if abs(got_ns - want_ns) > 1000:  # the stored resolution of datetime is 1 us: rounding or truncation are both fine
            fails.append({"sig": {"kind": "first-point", "leaf": "/metadata/platform_position@datetime_of_first_point", "delta_s": round((got_ns - want_ns) / 1e9)}, "detail": f"first point {y}-{mo:02d}-{d:02d} + {text} s reads back as {got} (off by {(got_ns - want_ns) / 1e9} s)", "case": {**case, "fn": "first_point"}})
    return {"ok": not fails, "failures": fails[:3], "outcome": "first-point-ok" if not fails else "first-point", "nontrivial": True, "n": len(FIRST_POINT_SECONDS)}


def execute(case):
    fails, n = [], 0
    seen = set()
    for y, doy in case["days"]:
        for level in ("1.5", "1.1"):
            for i, hmsm in enumerate(TIMES):
                n += 1
                for f in one(level, y, doy, hmsm, US_EXTRA[i]):
                    k = core.jkey(f["sig"])
                    if k not in seen:
                        seen.add(k)
                        fails.append(f)
            if doy in (1, 60, 366):  # level 1.1 lines whose millisecond stamp is ahead of the microsecond counter
                for hmsm, extra in ((TIMES[1], -1), (TIMES[2], -500), ((0, 0, 0, 1), -700)):
                    n += 1
                    for f in one("1.1", y, doy, hmsm, extra):
                        k = core.jkey(f["sig"])
                        if k not in seen:
                            seen.add(k)
                            fails.append(f)
    return {"ok": not fails, "failures": fails, "outcome": "ok" if not fails else "mismatch", "nontrivial": True, "n": n}


def run(res, tier, seed):
    res.rule = (
        "instants = (every day [thorough] | days 1,2,59,60,61,365,366 [quick]) of every year 2014..2049 x times 00:00:00.000,"
        " 12:34:56.789, 23:59:59.999 (130 attitude points with distinct milliseconds on each of 9 days of the year, exact to the nanosecond; +0/1/999 us for the us-of-day stamp; on days 1, 60, 366 also -1 / -500 / -700 us: the millisecond stamp ahead of the microsecond counter) x levels 1.5 and 1.1; each instant is written into all"
        " time fields of one product at once; every time leaf is compared with the instant (and the whole tree with the"
        " reference model); plus 16 times of day at every order of magnitude of the ms/us counters (1 ms .. 86 399 998 ms) on 4 days; plus 12 instants whose compact text looks like a leap second / boundary at another alignment; plus 9 sequences of attitude days (over the end of the year, backwards, repeated) under common and leap reference years; plus each time-bearing field alone holding an instant of the neighbouring year; plus 5 instants on 4 days read back through the index cache; plus hours 0-3 of eight daylight-saving switch-over days under four local time zones; plus 12 decimal-second texts of the" " platform-position first point up to 86399.9999996 s on 4 dates (1 us tolerance) and on 96 dates written blank-padded ('2016   1  16'); plus images of 1025/1100/2049 lines (all per-line leaves compared) so that bulk code paths above the default"
        " 1024-line chunk are exercised. A case is a batch of 6 days; all distinct, all non-trivial."
    )
    res.assumptions = ["day-of-year 1 = 1 January as the property states; leap seconds are not modelled"]
    n = 0
    for idx, case, out in core.pool_map(__name__, "execute", plan(tier), chunksize=1):
        res.record(case, out, order=idx)
        n += out["n"]
    for idx, case, out in core.pool_map(__name__, "sweep", [{"day": list(d)} for d in SWEEP_DAYS], chunksize=1):
        res.record({**case, "fn": "sweep"}, out, order=2 * 10**6 + idx)
        n += out["n"]
    for idx, case, out in core.pool_map(__name__, "lookalikes", [{"day": list(d)} for d in ((2020, 65), (2016, 366), (2023, 235))], chunksize=1):
        res.record({**case, "fn": "lookalikes"}, out, order=7 * 10**6 + idx)
        n += out["n"]
    for idx, case, out in core.pool_map(__name__, "attitude_days", [{"year": y} for y in (2019, 2020, 2049)], chunksize=1):
        res.record({**case, "fn": "attitude_days"}, out, order=8 * 10**6 + idx)
        n += out["n"]
    for idx, case, out in core.pool_map(__name__, "attitude_ms", [{"year": y, "day": d} for y, d in ((2019, 1), (2019, 48), (2019, 49), (2019, 100), (2019, 200), (2019, 300), (2019, 365), (2020, 366), (2049, 250))], chunksize=1):
        res.record({**case, "fn": "attitude_ms"}, out, order=85 * 10**5 + idx)
        n += out["n"]
    for idx, case, out in core.pool_map(__name__, "independent", [{}], chunksize=1):
        res.record({"fn": "independent"}, out, order=5 * 10**6 + idx)
        n += out["n"]
    for idx, case, out in core.pool_map(__name__, "cached", [{"day": list(d)} for d in SWEEP_DAYS], chunksize=1):
        res.record({**case, "fn": "cached"}, out, order=6 * 10**6 + idx)
        n += out["n"]
    for idx, case, out in core.pool_map(__name__, "tz_sweep", [{"tz": tz, "level": lv} for tz in env.TZ_RULES for lv in ("1.5", "1.1")], chunksize=1):
        res.record({**case, "fn": "tz_sweep"}, out, order=4 * 10**6 + idx)
        n += out["n"]
    for idx, case, out in core.pool_map(__name__, "first_point", [{"date": list(d)} for d in ((2016, 2, 29), (2014, 8, 29), (2049, 12, 30), (2015, 1, 1))] + [{"date": [y, mo, d], "blank_padded": True} for y in (2016, 2049) for mo in (1, 2, 9, 10, 11, 12) for d in (1, 6, 9, 10, 11, 16, 23, 28)], chunksize=1):
        res.record({**case, "fn": "first_point"}, out, order=3 * 10**6 + idx)
        n += out["n"]
    big = [{"level": lv, "lines": L, "rpc": rpc} for lv in ("1.5", "1.1") for L, rpc in ((1025, None), (1100, 512), (2049, None))]
    for idx, case, out in core.pool_map(__name__, "many_lines", big, chunksize=1):
        res.record({**case, "fn": "many_lines"}, out, order=10**6 + idx)
        n += 1
    res.extra["products_opened"] = n
