"""C08 - cache codec exactness (DESIGN §4 C08).

(a) image groups produced by the reader (both levels, extreme / blank
    deviations of C03), (b) generated hierarchies: every supported dtype x
    shape {(), (0,), (1,), (3,), (2,2)} x value alphabet rotated through every
    position x byte order x ndarray/list, attribute alphabet, nesting depth
    <= 2, variable order permutations, backend image arrays.
Oracle: decode(encode(g)) == g leaf for leaf (dtype, shape, bytes with NaN by
class and -0.0 != 0.0, attrs with tuple/list distinction, dims, paths, order,
image-array fields); every document is also decoded by a *fresh interpreter*
that receives only the text.
"""
import itertools
import json
import os
import subprocess
import sys

import numpy as np

from mc import codecsnap, core, env, harness, synth, treecheck

ID = "C08"
LEVEL = "exploration"

I64MAX, I64MIN = 2**63 - 1, -(2**63)

INT_TYPES = ["i1", "i2", "i4", "i8", "u1", "u2", "u4", "u8"]
FLOAT_TYPES = ["f2", "f4", "f8"]
TIME_UNITS = ["s", "ms", "us", "ns"]
SHAPES = [(), (0,), (1,), (3,), (2, 2)]

import collections

Pair = collections.namedtuple("Pair", "lo hi")

ATTRS = [
    {},
    {"units": "µs", "n": 3, "flag": True},
    {"big": I64MAX, "small": I64MIN, "huge": 2**64 - 1},
    {"f": 1.5, "nz": -0.0, "tiny": 5e-324, "one": 1.0},
    {"nan": float("nan"), "inf": float("inf"), "ninf": float("-inf")},
    {"valid_range": [0, 65535], "shape": (3, 4), "nested": [[1, 2], [3, [4, 5]]]},
    {"t": (1, (2, 3), [4, (5,)]), "empty_list": [], "empty_tuple": (), "text": ""},
    {"coordinates": ["rows", "time"], "false": False, "zero": 0, "zerof": 0.0},
    {"quote": 'a "b" \\ c', "unicode": "σ⁰ λ 日本", "newline": "x\ny"},
    {"nodata": "NaN", "upper": "Infinity", "lower": "-Infinity", "none": "null", "yes": "true", "one": "1", "num": "-1.5e3", "nat": "NaT", "when": "2014-08-29T03:21:54", "listy": "[1, 2]", "names": ["NaN", "x", ["Infinity", ("null", "1")]], "py": ("nan", "inf", "None", "{}")},
    # regular-looking lists of pairs (what a 'store start/stop/step' optimisation would fold): starts and stops that advance by
    # different constants, by the same constant, geometric, with one irregular element
    # containers that are subclasses of dict / list / tuple (isinstance, not type(...) is ...)
    {"ordered": collections.OrderedDict(valid_range=(0, 5), names=["a", "b"]), "pair": Pair(1, 2), "pairs": [Pair(0, 1), Pair(2, 3)], "dd": collections.defaultdict(list, {"k": (1, 2)})},
    {"windows": [(0, 10), (20, 40), (40, 70)], "same": [(0, 10), (20, 30), (40, 50), (60, 70)], "lists": [[0, 1], [2, 4], [4, 7]], "geo": [(1, 2), (2, 4), (4, 8), (8, 16)], "odd": [(0, 5), (10, 15), (20, 26), (30, 35)], "runs": [1, 3, 5, 7, 9], "fruns": [0.5, 1.0, 1.5]},
]


def int_values(dt):
    info = np.iinfo(dt)
    vals = [0, 1, info.max, info.min]
    if info.min < 0:
        vals.append(-1)
    if info.bits == 64:
        vals.append(2**53 + 1)
    return vals


def float_values(dt):
    fi = np.finfo(dt)
    return [0.0, -0.0, 1.5, float("nan"), float("inf"), float("-inf"), float(fi.smallest_subnormal), float(fi.max), -float(fi.tiny), 0.1]


TIME_INTS = [0, 1, -1, 1409282514, "NaT", 2**53 + 1]
TIME_EXTREMES = {100: [I64MAX, 0, 1], 102: [I64MIN + 1, 0, -1]}  # one extreme per array: a span > 2^63 units cannot be an int64 offset
STRINGS = ["", "a", "µs", "日本語", "x y ", 'q"\\']
# text that reads like a token of another type (JSON constants, numbers, times, containers): it is still text
LOOKALIKES = ["NaN", "Infinity", "-Infinity", "null", "true", "1", "-1.5e3", "NaT", "2014-08-29T03:21:54", "[1, 2]", "nan", "inf", "None", "{}"]
STRINGS = STRINGS + LOOKALIKES


def rotated(values, shape, j):
    n = int(np.prod(shape)) if shape else 1
    return [values[(i + j) % len(values)] for i in range(n)]


def make_array(kind, shape, j, byteorder="="):
    """-> ndarray for document parameters (kind e.g. 'b1','i4','f2','M8[ms]','m8[s]','U')"""
    if kind == "b1":
        flat = rotated([True, False], shape, j)
        arr = np.array(flat, dtype="bool")
    elif kind[0] in "iu":
        flat = rotated(int_values(kind), shape, j)
        arr = np.array(flat, dtype=kind)
    elif kind[0] == "f":
        flat = rotated(float_values(kind), shape, j)
        arr = np.array(flat, dtype=kind)
    elif kind[0] in "Mm":
        vals = TIME_INTS if j < 100 else TIME_EXTREMES[j - j % 2]
        flat = rotated(vals, shape, j % 2 if j >= 100 else j)
        ints = np.array([I64MIN if v == "NaT" else v for v in flat], dtype="int64")
        arr = ints.view(kind)
    elif kind == "U":
        flat = rotated(STRINGS, shape, j)
        arr = np.array(flat, dtype=f"U{max([len(s) for s in flat] + [1])}")
    else:
        raise ValueError(kind)
    arr = arr.reshape(shape)
    if byteorder != "=" and arr.dtype.kind not in "bU" and arr.dtype.itemsize > 1:
        arr = arr.astype(arr.dtype.newbyteorder(byteorder))
    return arr


PATTERNS = ("allsame", "allsame0", "signzeros", "drift", "allnan", "nearly", "samebut1")


def make_pattern(kind, shape, pattern):
    """arrays whose elements are equal, compare equal without being identical, or are very close:
    the shapes a 'store constant arrays once' / 'delta' / 'tolerance' encoding would get wrong"""
    n = int(np.prod(shape))
    if kind == "b1":
        flat = {"allsame": [True] * n, "allsame0": [False] * n, "samebut1": [True] * (n - 1) + [False]}.get(pattern)
    elif kind[0] in "iu":
        hi = int(np.iinfo(kind).max)
        flat = {"allsame": [hi] * n, "allsame0": [0] * n, "drift": [hi - n + 1 + i for i in range(n)], "samebut1": [7] * (n - 1) + [8], "nearly": [hi - (i % 2) for i in range(n)]}.get(pattern)
    elif kind[0] == "f":
        one = np.array(348.123456, dtype=kind)
        step = np.spacing(one)
        flat = {
            "allsame": [1.5] * n,
            "allsame0": [-0.0] * n,
            "signzeros": [0.0 if i % 2 == 0 else -0.0 for i in range(n)],
            "drift": [float(one + i * step) for i in range(n)],
            "allnan": [float("nan")] * n,
            "nearly": [1.0 + (1e-9 if kind == "f8" else 0.0) * i for i in range(n)] if kind == "f8" else [float(one - i * step) for i in range(n)],
            "samebut1": [2.25] * (n - 1) + [float("nan")],
        }.get(pattern)
    elif kind[0] in "Mm":
        base = 1409282514
        flat = {"allsame": [base] * n, "allsame0": [0] * n, "drift": [base + i for i in range(n)], "allnan": [I64MIN] * n, "samebut1": [base] * (n - 1) + [I64MIN], "nearly": [I64MIN] + [base] * (n - 1)}.get(pattern)
        if flat is None:
            return None
        return np.array(flat, dtype="int64").view(kind).reshape(shape)
    elif kind == "U":
        flat = {"allsame": ["µs"] * n, "allsame0": [""] * n, "samebut1": ["a"] * (n - 1) + ["a "], "nearly": ["a", "A"] * (n // 2) + ["a"] * (n % 2)}.get(pattern)
        if flat is None:
            return None
        return np.array(flat).reshape(shape)
    if flat is None:
        return None
    return np.array(flat, dtype=kind).reshape(shape)


LONG_KINDS = ["b1", "u2", "i4", "u4", "i8", "u8", "f4", "f8", "M8[ns]", "m8[us]", "U"]
LONG_N = (20, 1024, 4096, 5000)
CHANGE_POINTS = (4, 15, 100, 1000, 1023, 1024, 4095, 4096)


def make_long(kind, n, pattern, byteorder="="):
    """long 1-d arrays (per-line columns of a real image have thousands of entries): piecewise constant with change
    points whose decimal strings sort differently from the numbers, and ramps over the whole value range"""
    idx = np.arange(n)
    stretch = sum((idx >= c).astype(int) for c in CHANGE_POINTS)
    if kind == "b1":
        arr = (stretch % 2 == 0) if pattern == "steps" else (idx % 3 == 0)
    elif kind[0] in "iu":
        info = np.iinfo(kind)
        if pattern == "steps":
            levels = [info.max, 0, info.min, info.max - 1, 1, info.max // 2 + 1, 7, info.min + 1, 2**31 if info.bits >= 32 and info.min == 0 else 3]
            arr = np.array([levels[k % len(levels)] for k in stretch], dtype=kind)
        else:
            arr = (np.linspace(float(info.min), float(info.max), n) // 1).clip(info.min, info.max)
            arr = np.array([int(x) for x in arr], dtype="object").astype(kind) if info.bits < 64 else np.array([info.min + (k * ((int(info.max) - int(info.min)) // max(n - 1, 1))) for k in range(n)], dtype=kind)
    elif kind[0] == "f":
        vals = float_values(kind)
        arr = np.array([vals[k % len(vals)] for k in (stretch if pattern == "steps" else idx)], dtype=kind)
    elif kind[0] in "Mm":
        base = 1409282514000000000 if "ns" in kind else 86399999999
        ints = [base, I64MIN, base + 1, 0, -1, base - 1, 1, base + 2**31, base + 2**32]
        flat = [ints[k % len(ints)] for k in stretch] if pattern == "steps" else [base + int(k) * 1000003 for k in idx]
        arr = np.array(flat, dtype="int64").view(kind)
    elif kind == "U":
        arr = np.array([STRINGS[k % len(STRINGS)] for k in (stretch if pattern == "steps" else idx)])
    else:
        raise ValueError(kind)
    arr = np.asarray(arr)
    if byteorder != "=" and arr.dtype.kind not in "bU" and arr.dtype.itemsize > 1:
        arr = arr.astype(arr.dtype.newbyteorder(byteorder))
    return arr


def relayout(arr, layout):
    """the same values in another memory layout (Fortran order, a transposed / strided view): ravel() of such an array is a copy"""
    if arr.ndim < 2 and layout != "strided":
        return arr
    if layout == "F":
        return np.asfortranarray(arr)
    if layout == "T":
        return np.ascontiguousarray(arr.T).T
    if layout == "strided":
        big = np.zeros(tuple(2 * n for n in arr.shape), dtype=arr.dtype)
        view = big[tuple(slice(None, None, 2) for _ in arr.shape)]
        view[...] = arr
        return view
    return arr


def n_rotations(kind):
    if kind == "b1":
        return 2
    if kind[0] in "iu":
        return len(int_values(kind))
    if kind[0] == "f":
        return len(float_values(kind))
    if kind[0] in "Mm":
        return len(TIME_INTS)
    return len(STRINGS)


def doc_params(tier):
    """JSON-able parameter dicts, one per generated document"""
    out = []
    kinds = ["b1"] + INT_TYPES + FLOAT_TYPES + [f"M8[{u}]" for u in TIME_UNITS] + [f"m8[{u}]" for u in TIME_UNITS] + ["U"]
    k = 0
    shapes = SHAPES if tier == "quick" else SHAPES + [(5,), (1, 1), (2, 3), (3, 2), (4, 1), (1, 4)]
    for kind in kinds:
        for shape in shapes:
            rots = range(n_rotations(kind)) if shape != (0,) else [0]
            for j in rots:
                orders = ["=", ">"] if kind not in ("b1", "U", "i1", "u1") else ["="]
                for bo in orders:
                    for as_list in ([False, True] if kind in ("b1", "i8", "f8", "U") and bo == "=" else [False]):
                        for a in ([k % len(ATTRS)] if tier == "quick" else range(len(ATTRS))):
                            out.append({"t": "array", "kind": kind, "shape": list(shape), "j": j, "bo": bo, "list": as_list, "attrs": a})
                        if not as_list and bo == "=" and len(shape) >= 1 and shape != (0,):
                            for layout in ("F", "T", "strided") if len(shape) == 2 else ("strided",):
                                out.append({"t": "array", "kind": kind, "shape": list(shape), "j": j, "bo": bo, "list": False, "attrs": 0, "layout": layout})
                        k += 1
            if kind[0] in "Mm" and shape in ((), (1,), (3,)):
                for j in (100, 101, 102, 103):
                    out.append({"t": "array", "kind": kind, "shape": list(shape), "j": j, "bo": "=", "list": False, "attrs": 0})
        for shape in ((2,), (3,), (2, 2)) if tier == "quick" else ((2,), (3,), (5,), (2, 2), (3, 2), (1, 3)):
            for pattern in PATTERNS:
                if make_pattern(kind, shape, pattern) is not None:
                    for as_list in (False, True) if kind in ("f8", "i8") else (False,):
                        out.append({"t": "pattern", "kind": kind, "shape": list(shape), "pattern": pattern, "list": as_list})
    for kind in LONG_KINDS:
        for n in LONG_N if tier == "quick" else LONG_N + (65536, 70001):
            for pattern in ("steps", "ramp"):
                for bo in ("=", ">") if kind not in ("b1", "U") else ("=",):
                    out.append({"t": "long", "kind": kind, "n": n, "pattern": pattern, "bo": bo})
    for a in range(len(ATTRS)):
        out.append({"t": "attrs", "attrs": a})
    for depth in (0, 1, 2):
        for perm in itertools.permutations(["alpha", "beta", "gamma"]):
            out.append({"t": "nest", "depth": depth, "order": list(perm)})
    # group paths and urls, incl. the empty string (an image file name with neither polarisation nor scan gives the group path "")
    for gpath in ("", "/", "HH", "HH_scan1", "a/b", None):
        for url in (None, "", "memory:///r", "file:///x y/z"):
            out.append({"t": "paths", "path": gpath, "url": url})
    # backend image arrays; 'shift' moves the byte ranges only: documents that agree in everything but the byte ranges
    # (an image file replaced in place) must not be confused
    for tc, dtype in (("IU2", "uint16"), ("C*8", "complex64")):
        for L in (1, 3):
            for rpc in (1, 2, 1024):
                for shift in (0, 7, 720):
                    out.append({"t": "backend", "tc": tc, "dtype": dtype, "L": L, "P": 4, "rpc": rpc, "shift": shift})
        # images of 2 / 4 GiB and more: the data of line k begins d bytes below 2^31, 2^32, 2^40 (a line straddling the boundary,
        # ending exactly at it, beginning exactly at it)
        bps = 2 if tc == "IU2" else 8
        for B in (2**31, 2**32, 2**40):
            for k in range(3):
                for d in (0, 1, 4 * bps - 1, 4 * bps, 4 * bps + 1):
                    out.append({"t": "backend", "tc": tc, "dtype": dtype, "L": 3, "P": 4, "rpc": 2, "shift": B - d - (720 + k * (192 + 4 * bps) + 192)})
        # byte ranges whose lengths grow / whose gaps vary (records are not required to be equally long)
        for L in (3, 6):
            for mode in ("growing", "gaps", "one-off"):
                out.append({"t": "backend", "tc": tc, "dtype": dtype, "L": L, "P": 4, "rpc": 1, "shift": 0, "ranges": mode})
    return out


def build_doc(p):
    """parameter dict -> (Group, rpc)"""
    env.import_lib()
    from ceos_alos2.hierarchy import Group, Variable

    if p["t"] == "array":
        arr = make_array(p["kind"], tuple(p["shape"]), p["j"], p["bo"])
        if p.get("layout"):
            arr = relayout(arr, p["layout"])
        dims = ["x", "y"][: arr.ndim]
        data = arr.tolist() if p["list"] else arr
        g = Group(path="/", url="memory:///r", data={"v": Variable(dims, data, dict(ATTRS[p["attrs"]]))}, attrs={"a": 1})
        return g, 2
    if p["t"] == "long":
        arr = make_long(p["kind"], p["n"], p["pattern"], p["bo"])
        g = Group(path="/", url=None, data={"rows": Variable(["rows"], list(range(1, p["n"] + 1)), {}), "v": Variable(["rows"], arr, {"units": "Hz"})}, attrs={"coordinates": ["rows"]})
        return g, 2
    if p["t"] == "pattern":
        arr = make_pattern(p["kind"], tuple(p["shape"]), p["pattern"])
        data = arr.tolist() if p["list"] else arr
        g = Group(path="/", url=None, data={"v": Variable(["x", "y"][: arr.ndim], data, {"units": "deg"}), "w": Variable(["x"], [1, 1, 1], {})}, attrs={})
        return g, 2
    if p["t"] == "attrs":
        g = Group(path="/", url=None, data={"v": Variable(["x"], np.arange(2), dict(ATTRS[p["attrs"]]))}, attrs=dict(ATTRS[p["attrs"]]))
        return g, 2
    if p["t"] == "paths":
        sub = Group(path=p["path"], url=p["url"], data={"v": Variable(["x"], np.arange(2), {})}, attrs={"k": 1})
        sub.path = p["path"]  # the reader assigns the path after construction
        g = Group(path="/", url=p["url"], data={"child": sub, "w": Variable(["x"], [1.5, 2.5], {})}, attrs={})
        return (g if p["path"] in (None, "/") else sub), 2
    if p["t"] == "nest":
        def leaf(i):
            return Variable(["x"], np.arange(i + 1, dtype="int32"), {"i": i})

        data = {name: leaf(i) for i, name in enumerate(p["order"])}
        for d in range(p["depth"]):
            data = {"first": leaf(9), f"sub{d}": Group(path=None, url=None, data=data, attrs={"depth": d}), "last": leaf(8)}
        return Group(path="/", url="file:///x", data=data, attrs={}), 2
    if p["t"] == "backend":
        import fsspec
        from ceos_alos2.array import Array
        from fsspec.implementations.dirfs import DirFileSystem

        fs = DirFileSystem(path="/some/root dir", fs=fsspec.filesystem("file"))
        bps = 2 if p["tc"] == "IU2" else 8
        br = [(p.get("shift", 0) + 720 + k * (192 + p["P"] * bps) + 192, p.get("shift", 0) + 720 + (k + 1) * (192 + p["P"] * bps)) for k in range(p["L"])]
        if p.get("ranges") == "growing":
            br = [(a + 10 * k * (k - 1) // 2 * 0 + 100 * k, a + 100 * k + (b - a) + 8 * k) for k, (a, b) in enumerate(br)]
        elif p.get("ranges") == "gaps":
            br = [(a + 3 * k * k, b + 3 * k * k) for k, (a, b) in enumerate(br)]
        elif p.get("ranges") == "one-off":
            br = [(a, b + (1 if k == p["L"] - 1 else 0)) for k, (a, b) in enumerate(br)]
        arr = Array(fs=fs, url="IMG-HH-X", byte_ranges=br, shape=(p["L"], p["P"]), dtype=p["dtype"], type_code=p["tc"], records_per_chunk=p["rpc"])
        g = Group(path="HH", url=None, data={"data": Variable(["rows", "columns"], arr, {}), "rows": Variable(["rows"], list(range(1, p["L"] + 1)), {})}, attrs={"coordinates": ["rows"]})
        return g, p["rpc"]
    raise ValueError(p)


def execute(case):
    env.import_lib()
    from ceos_alos2.sar_image import caching

    fails, texts, befores = [], [], []
    outcomes = {}
    for p in case["docs"]:
        g, rpc = build_doc(p)
        before = codecsnap.group_canon(g)
        try:
            text = caching.encode(g)
            json.loads(text)  # self-contained JSON text
            after = codecsnap.group_canon(caching.decode(text, rpc))
            d = codecsnap.diff(before, after)
            out = "ok" if not d else "differs"
        except Exception as e:
            d = [f"{type(e).__name__}: {str(e)[:100]}"]
            out = f"raises:{type(e).__name__}"
            text = None
        outcomes[out] = outcomes.get(out, 0) + 1
        if d:
            sig = {"kind": out, "t": p["t"], "dtype": p.get("kind", "")[:2], "shape": str(p.get("shape"))}
            if core.jkey(sig) not in {core.jkey(f["sig"]) for f in fails}:
                fails.append({"sig": sig, "detail": f"document {p}: {'; '.join(d[:3])}", "case": {"docs": [p]}})
        if text is not None:
            texts.append([text, rpc])
            befores.append((p, before))
    # fresh interpreter: receives only the text
    if texts:
        path = env.scratch_root() / f"docs_{os.getpid()}_{case['n']}.json"
        path.write_text(json.dumps(texts), encoding="utf-8")
        r = subprocess.run([sys.executable, "-m", "mc.codecsnap", str(path)], capture_output=True, text=True, cwd=str(env.VERIF), env={**os.environ, "PYTHONPATH": str(env.VERIF)})
        path.unlink()
        if r.returncode != 0:
            raise RuntimeError(f"fresh decoder failed: {r.stderr[-500:]}")
        afters = json.loads(r.stdout)
        for (p, before), after in zip(befores, afters):
            b = json.loads(json.dumps(before))
            d = codecsnap.diff(b, after) if "error" not in after else [after["error"]]
            if d:
                sig = {"kind": "fresh-process-differs", "t": p["t"], "dtype": p.get("kind", "")[:2]}
                if core.jkey(sig) not in {core.jkey(f["sig"]) for f in fails}:
                    fails.append({"sig": sig, "detail": f"fresh interpreter, document {p}: {'; '.join(d[:3])}", "case": {"docs": [p]}})
    return {"ok": not fails, "failures": fails, "outcome": "+".join(sorted(outcomes)), "nontrivial": True, "n": len(case["docs"]), "fresh": len(texts)}


def execute_reader(case):
    """groups produced by the reader itself"""
    import fsspec

    env.import_lib()
    from ceos_alos2 import sar_image
    from ceos_alos2.sar_image import caching

    spec = treecheck.spec_from_case(case)
    files, _ = synth.build(spec)
    fails = []
    with harness.Product(files, case.get("fs", "mcfs")) as prod:
        mapper = fsspec.get_mapper(prod.url, **prod.storage_options)
        for i, im in enumerate(spec["images"]):
            name = synth.file_names(spec)["img"][i]
            for rpc in (1, 1024) if spec["images"][i]["lines"] < 1000 else (1024,):
                g = sar_image.open_image(mapper, name, use_cache=False, records_per_chunk=rpc)
                before = codecsnap.group_canon(g)
                try:
                    text = caching.encode(g)
                    after = codecsnap.group_canon(caching.decode(text, rpc, fs=g["data"].data.fs))
                    d = codecsnap.diff(before, after)
                except Exception as e:
                    d = [f"{type(e).__name__}: {str(e)[:100]}"]
                if d:
                    fails.append({"sig": {"kind": "reader-group-differs", "where": d[0].split(":")[0][:60]}, "detail": f"{case['label']} image {name} rpc={rpc}: {'; '.join(d[:3])}", "case": case})
    return {"ok": not fails, "failures": fails[:4], "outcome": "reader-ok" if not fails else "reader-group-differs", "nontrivial": True}


def reader_cases():
    from mc.checks import c03

    out = []
    for level in ("1.5", "1.1"):
        sp = {"level": level, "images": [["HH", None, 3, 2], ["HV", "F2" if level == "1.1" else None, 1, 1]]}
        lay = synth.layout(synth.TYPE_INFO["C*8" if level == "1.1" else "IU2"]["rec"])
        plain = [f for f in lay.fields if f["kind"] == "B" and "enum" not in f and not f.get("flag") and not f["name"].startswith("preamble.") and f["name"] != "sar_image_data_line_number"]
        out.append({"fn": "execute_reader", "spec": sp, "devs": [], "label": f"{level} baseline"})
        for mode in ("equal", "drift"):
            out.append({"fn": "execute_reader", "spec": {**sp, "images": [["HH", None, 4, 2], ["HV", "F2" if level == "1.1" else None, 2, 1]], "line_mode": mode}, "devs": [], "label": f"{level} per-line values {mode}"})
        out.append({"fn": "execute_reader", "spec": {**sp, "images": [["HH", None, 24, 1]], "line_mode": "steps"}, "devs": [], "label": f"{level} per-line values piecewise constant (24 lines)"})
        # thousands of lines (long per-line columns), extreme values on a few of them
        tall = [f for f in plain if f["name"] not in synth.LINE_CONSTANTS]
        for mode in ("steps", "distinct"):
            out.append({"fn": "execute_reader", "spec": {**sp, "images": [["HH", None, 4200, 1]], "line_mode": mode}, "devs": [["img0", "line", f["key"], {"hex": "ff" * f["w"]}, ln] for f in tall for ln in (0, 4100)] + [["img0", "line", f["key"], {"hex": "80" + "00" * (f["w"] - 1)}, 4199] for f in tall], "label": f"{level} 4200 lines ({mode}), every line field at its maximum on lines 0 and 4100, high bit on the last"})
        for val, nm in (("ff", "max"), ("00", "zero"), ("80", "high bit")):
            out.append({"fn": "execute_reader", "spec": sp, "devs": [["img0", "line", f["key"], {"hex": (val + "00" * (f["w"] - 1)) if nm == "high bit" else val * f["w"]}, None if f["name"] in synth.LINE_CONSTANTS else 1] for f in plain], "label": f"{level} every line field {nm}"})
        out.append({"fn": "execute_reader", "spec": sp, "devs": [["img0", "file_descriptor", k, {"hex": v[0].hex()}] for k, v in c03.HEADER.items()], "label": f"{level} optional header fields blank"})
        for stamp in ((2016, 366, 86399999), (2014, 1, 0), (2049, 365, 1)):
            import struct

            out.append({"fn": "execute_reader", "spec": sp, "devs": [["img0", "line", "sensor_acquisition_date", {"hex": struct.pack(">III", *stamp).hex()}, 0]], "label": f"{level} stamp {stamp}", "fs": "local"})
    return out


def run(res, tier, seed):
    res.rule = (
        "generated documents: dtype {b1; i1..i8; u1..u8; f2,f4,f8; M8/m8[s,ms,us,ns]; U} x shape {(),(0,),(1,),(3,),(2,2)} x value"
        " alphabet rotated through every position (incl. NaN, +-inf, -0.0, denormals, int extremes, 2^53+1, NaT, int64 extremes for"
        " times, non-ASCII / empty strings) x byte order x ndarray|list; 9 attribute dictionaries (int/float extremes, tuples in"
        " lists in tuples, unicode); nesting depth 0..2 x all orders of 3 variables; backend image arrays (byte ranges shifted, uneven, and straddling / touching offsets 2^31, 2^32, 2^40 on every line); reader-produced groups of"
        " both levels with extreme line fields, blank headers and boundary time stamps, and with per-line values identical on all lines / drifting by one unit per line / piecewise constant, and 4200-line images with extreme values on a few lines. Every document goes encode -> decode in"
        " process and encode -> text -> fresh interpreter."
    )
    res.assumptions = ["list-valued data is compared as numpy.asarray(list) (the decoder returns arrays)", "shape (0, n) two-dimensional empties are outside the alphabet", "dtypes are compared up to byte order; one array never spans more than 2^63 time units"]
    docs = doc_params(tier)
    chunks = [{"docs": docs[i : i + 120], "n": i} for i in range(0, len(docs), 120)]
    n = fresh = 0
    for idx, case, out in core.pool_map(__name__, "execute", chunks, chunksize=1):
        res.record({"first": case["docs"][0], "n_docs": len(case["docs"])}, out, order=idx)
        n += out["n"]
        fresh += out["fresh"]
    for idx, case, out in core.pool_map(__name__, "execute_reader", reader_cases(), chunksize=1):
        res.record({"label": case["label"], "n_devs": len(case["devs"])}, out, order=10**6 + idx)
    res.extra.update({"documents": n, "decoded_in_fresh_interpreter": fresh})
