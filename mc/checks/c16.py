"""C16 - volume directory fields surface unchanged as root attributes (DESIGN §4 C16).

Every text field of the volume descriptor and text record x content alphabet
(blank, 1 char, full width, leading/trailing/inner spaces, punctuation, quotes);
creation timestamp over the cross product of component boundary sets; 0..12
file-pointer records with distinct content (also deviated).  The root
attributes must equal the reference model: exactly the documented names,
stripped text, ISO 8601 timestamp of the same instant.
"""
import calendar

from mc import alphabets, core, env, harness, synth, treecheck

ID = "C16"
LEVEL = "exploration"

SPEC = {"level": "1.5", "images": [["HH", None, 1, 1]]}
DT_FIELD = "logical_volume_creation_datetime"


def text_fields():
    for rec, lay in (("volume_descriptor", "vol.volume_descriptor"), ("text_record", "vol.text_record")):
        for f in synth.layout(lay).fields:
            if f["name"].startswith("preamble.") or f["kind"] != "A" or f["name"] == DT_FIELD:
                continue
            yield rec, f


def timestamps(tier):
    out = []
    for y in (2014, 2016, 2049):
        for md in ("0101", "0228", "0229", "0301", "1231"):
            if md == "0229" and not calendar.isleap(y):
                continue
            for h in ("00", "23"):
                for m in ("00", "59"):
                    for s in ("00", "59"):
                        for c in ("00", "01", "99"):
                            out.append(f"{y}{md}{h}{m}{s}{c}")
    return out if tier == "thorough" else out[:: 7] + out[-3:]


def contents(f, seed):
    w = f["w"]
    vals = [("blank", b" " * w)] + alphabets.texts(w, seed, f["name"])
    if w >= 4:
        vals.append(("padded", (" " + "ab cd"[: w - 2] + " ").ljust(w).encode()))
    return vals


def plan(tier, seed):
    cases = [{"spec": SPEC, "devs": [], "label": "baseline"}]
    for rec, f in text_fields():
        for label, b in contents(f, seed):
            cases.append({"spec": SPEC, "devs": [["vol", rec, f["key"], {"hex": b.hex()}]], "label": f"{rec}.{f['key']}={label}"})
    for j in range(6):
        devs = []
        for rec, f in text_fields():
            c = contents(f, seed)
            devs.append(["vol", rec, f["key"], {"hex": c[(j + 1) % len(c)][1].hex()}])
        cases.append({"spec": SPEC, "devs": devs, "label": f"all-text-fields#{j}"})
    # whole records blank / numeric-looking at once (a text record that "looks like" a file pointer record)
    for rec_sel in (("text_record",), ("volume_descriptor",), ("text_record", "volume_descriptor")):
        for label, fill in (("blank", lambda f: b" " * f["w"]), ("digits", lambda f: (b"2020 1011 0042 7" * 8)[: f["w"]]), ("short-digits", lambda f: b"7".ljust(f["w"]))):
            devs = [["vol", rec, f["key"], {"hex": fill(f).hex()}] for rec, f in text_fields() if rec in rec_sel]
            for n in (0, 1, 4):
                cases.append({"spec": {**SPEC, "vol": {"n_fp": n}}, "devs": devs, "label": f"all text fields of {'+'.join(rec_sel)} {label}, {n} file pointers"})
    for ts in timestamps(tier):
        cases.append({"spec": SPEC, "devs": [["vol", "volume_descriptor", DT_FIELD, ts]], "label": f"creation={ts}"})
    # the process' local time zone must not matter: hours around the switch-over on every day on which one of four zones
    # (Europe, North America, South America, Australia) skips or repeats an hour
    for rule in env.TZ_RULES:
        for mo, d in env.TZ_DAYS:
            for hh in (0, 1, 2, 3, 23):
                cases.append({"spec": SPEC, "devs": [["vol", "volume_descriptor", DT_FIELD, f"2021{mo:02d}{d:02d}{hh:02d}300512"]], "tz": rule, "label": f"creation=2021{mo:02d}{d:02d}{hh:02d}300512 under TZ={rule}"})
    # volume directory files padded behind the text record (block-size padding), with 0..4 file pointers
    for n_fp in (0, 1, 2, 3, 4, 7):
        for pad in (1, 152, 359, 360, 361, 512, 720, 4096):
            for byte in (0, 32):
                cases.append({"spec": {**SPEC, "vol": {"n_fp": n_fp}, "pad_files": {"vol": [pad, byte]}}, "devs": [], "label": f"{n_fp} file pointers, {pad} bytes 0x{byte:02x} behind the text record"})
    # every (second, hundredth) pair of the creation time (two fields whose combination goes through one number)
    for ss in range(60):
        for cs in range(100) if tier == "thorough" or ss % 2 == 0 or ss in (1, 33, 59) else (0, 1, 37, 38, 50, 99):
            cases.append({"spec": SPEC, "devs": [["vol", "volume_descriptor", DT_FIELD, f"202107010630{ss:02d}{cs:02d}"]], "seam": True, "label": f"creation=202107010630{ss:02d}{cs:02d}"})
    for n in range(0, 13):
        sp = {**SPEC, "vol": {"n_fp": n}}
        cases.append({"spec": sp, "devs": [], "label": f"file pointers={n}"})
        if n:
            fp = synth.layout("vol.file_pointer")
            devs = [["vol", f"file_pointer[{n - 1}]", f["key"], {"hex": (b"Z" * f["w"]).hex() if f["kind"] == "A" else (b"9" * f["w"]).hex()}] for f in fp.fields if not f["name"].startswith("preamble.")]
            cases.append({"spec": sp, "devs": devs, "label": f"file pointers={n}, last one rewritten"})
    return cases


_seam = {}


def execute_seam(case):
    """the volume directory alone through ceos_alos2.volume_directory.open_volume_directory (what open_alos2 calls for it)"""
    import datetime as dt

    import fsspec

    env.import_lib()
    from ceos_alos2.volume_directory import open_volume_directory

    spec = treecheck.spec_from_case(case)
    files, _ = synth.build(spec) if "files" not in _seam else (None, None)
    if files is not None:
        _seam["files"], _seam["name"] = files, synth.file_names(spec)["vol"]
    vol = bytearray(_seam["files"][_seam["name"]])
    lay = synth.layout("vol.volume_descriptor")
    f = next(x for x in lay.fields if x["name"] == DT_FIELD)
    ts = case["devs"][0][3]
    vol[f["off"] : f["off"] + f["w"]] = ts.ljust(f["w"]).encode()


    attrs = open_volume_directory(harness.mem_mapper({_seam["name"]: bytes(vol)}), _seam["name"]).attrs
    got = attrs.get("creation_datetime")
    want = dt.datetime.strptime(ts[:14], "%Y%m%d%H%M%S") + dt.timedelta(milliseconds=10 * int(ts[14:16]))
    try:
        ok = dt.datetime.fromisoformat(got) == want
    except Exception:
        ok = False
    fails = [] if ok else [{"sig": {"kind": "creation-datetime", "leaf": "/@creation_datetime"}, "detail": f"{case['label']}: creation_datetime reads {got!r}, the file says {want.isoformat()}", "case": case}]
    return {"ok": ok, "failures": fails, "outcome": "ok" if ok else "creation-datetime", "nontrivial": True}


def execute(case):
    if case.get("seam"):
        return execute_seam(case)
    spec = treecheck.spec_from_case(case)
    with env.timezone(case.get("tz")):
        out = treecheck.check_spec(spec, only=["/@"])
    fails = out["failures"]
    root_extra = [k for k in out.get("unverified", []) if k.startswith("/@")]
    for k in root_extra:
        fails.append({"sig": {"kind": "undocumented-root-attribute", "leaf": k}, "detail": f"root attribute {k} is not one of the documented volume-directory attributes"})
    for f in fails:
        f["detail"] = f"{case['label']}: {f['detail']}"
        f["case"] = case
    return {"ok": not fails, "failures": fails, "outcome": "ok" if not fails else fails[0]["sig"].get("kind", "leaf-mismatch"), "nontrivial": True}


def execute_replaced(case):
    a = treecheck.spec_from_case({"spec": SPEC, "devs": []})
    b = treecheck.spec_from_case({"spec": SPEC, "devs": case["devs"]})
    out = treecheck.check_replaced(a, b, kind=case["fs"], keep_mtime=case["keep_mtime"], only=["/@"])
    fails = out["failures"]
    for f in fails:
        f["detail"] = f"volume directory replaced in place on {case['fs']} (modification time {'kept' if case['keep_mtime'] else 'new'}), second open: {f['detail']}"
        f["case"] = {**case, "fn": "execute_replaced"}
    return {"ok": not fails, "failures": fails[:3], "outcome": "replaced-ok" if not fails else "replaced-stale", "nontrivial": True}


def run(res, tier, seed):
    res.rule = (
        "every text field of volume descriptor + text record x {blank, 1 char, full width, inner spaces, right-justified, punctuation,"
        " quotes, mixed case, padded}; 6 all-fields-at-once products; creation timestamp over years{2014,2016,2049} x days"
        " {0101,0228,0229,0301,1231} x h{00,23} x m{00,59} x s{00,59} x cs{00,01,99} (quick: every 7th); 0..12 file pointers with"
        " the last pointer rewritten; creation times at hours 0-3 and 23 of eight daylight-saving switch-over days under four local time zones; every (second, hundredth) pair of the creation time [quick: all hundredths for even seconds] through volume_directory.open_volume_directory; volume directory files padded behind the text record; the volume directory replaced in place (modification time kept / new) between two opens. Root attributes must be exactly the documented set with the reference values."
    )
    res.assumptions = ["printable ASCII contents only (the format's character class)"]
    core.run_cases(res, __name__, plan(tier, seed))
    allat = next(c for c in plan(tier, seed) if c["label"] == "all-text-fields#2")
    rep = [{"fs": fs, "keep_mtime": km, "devs": allat["devs"]} for fs in ("local", "mcfs", "file") for km in (True, False)]
    for idx, case, out in core.pool_map(__name__, "execute_replaced", rep, chunksize=1):
        res.record({"fn": "execute_replaced", "fs": case["fs"], "keep_mtime": case["keep_mtime"]}, out, order=10**6 + idx)
