"""C02 - indexing equivalence (DESIGN §4 C02).

Depth 1: every index expression of a finite per-axis alphabet (all ints, all
slices over a,b in {None,-n-1..n+1} x step in {None,+-1,+-2,+-3}, all integer
arrays of length <= 2 plus [], all boolean masks), rows x columns, applied to
the lazily opened image and to an in-memory twin.  Depth 2-3: explicit-state
BFS over chains of single-axis indexing steps; state = effective selection.
"""
import itertools

import numpy as np

from mc import core, harness, synth

ID = "C02"
LEVEL = "model_checking"


# ---------------------------------------------------------------------------
# alphabets (JSON-able expression encodings)


def ints(n):
    return [["i", k] for k in range(-n, n)]


def slices(n, steps=(None, 1, -1, 2, -2, 3, -3)):
    bounds = [None] + list(range(-n - 1, n + 2))
    return [["s", a, b, s] for a in bounds for b in bounds for s in steps]


def arrays(n):
    out = [["a", []]]
    out += [["a", [k]] for k in range(-n, n)]
    out += [["a", [k, j]] for k in range(-n, n) for j in range(-n, n)]
    return out


def masks(n):
    return [["m", list(bits)] for bits in itertools.product([False, True], repeat=n)]


def full_alphabet(n):
    return ints(n) + slices(n) + arrays(n) + masks(n)


def representatives(n):
    reps = [["s", None, None, None], ["i", 0], ["i", -1], ["s", 1, None, None], ["s", None, None, -1], ["a", [n - 1, 0]], ["s", 0, 0, None], ["m", [k % 2 == 0 for k in range(n)]]]
    return reps


def to_obj(e):
    if e[0] == "i":
        return e[1]
    if e[0] == "s":
        return slice(e[1], e[2], e[3])
    if e[0] == "a":
        return np.array(e[1], dtype="int64")
    if e[0] == "m":
        return np.array(e[1], dtype=bool)
    raise ValueError(e)


# ---------------------------------------------------------------------------
# product / twin

_cache = {}


def opened(tc, L, P, rpc, seed=0, cached_from=None, fs="mcfs"):
    """(product, lazy DataArray, twin DataArray, image file name) - cached per worker.
    cached_from=N: the image is opened through an index cache written and first used at rpc N"""
    from mc import env

    key = (tc, L, P, rpc, cached_from) if fs == "mcfs" else (tc, L, P, rpc, cached_from, fs)
    if key not in _cache:
        env.import_lib()
        env.wipe_cache()
        for k in list(_cache):
            _cache.pop(k)[0].close()
        import xarray as xr

        im = synth.image_spec("HH", None, L, P, tc)
        spec = synth.product_spec("1.1" if tc == "C*8" else "1.5", images=[im])
        files, _ = synth.build(spec)
        prod = harness.Product(files, fs)
        if cached_from == "cli":
            # the index is written by the command line tool on a local copy and deployed next to the image
            import shutil

            from mc import cachelab

            copy = cachelab.local_copy(files, "c02cli")
            name = synth.image_name(spec, im)
            if cachelab.run_cli(copy / name, rpc=max(1, L - 1)) != 0:
                raise RuntimeError("cache tool failed")
            prod.put(f"{name}.index", (copy / f"{name}.index").read_bytes())
            shutil.rmtree(copy, ignore_errors=True)
            tree = prod.open(records_per_chunk=rpc, use_cache=True)
        elif cached_from is not None:
            prod.open(records_per_chunk=cached_from, create_cache=True, use_cache=False)
            prod.open(records_per_chunk=cached_from, use_cache=True)
            tree = prod.open(records_per_chunk=rpc, use_cache=True)
        else:
            tree = prod.open(records_per_chunk=rpc, use_cache=False)
        da = tree["imagery/HH/data"]
        raw = synth.default_samples(L, P, tc, 0)
        if tc == "IU2":
            expected = raw.astype("uint16")
        else:
            f = raw.astype("float32").reshape(L, P, 2)
            expected = (f[..., 0] + 1j * f[..., 1]).astype("complex64")
        twin = da.copy(deep=False, data=expected)
        ref = da.copy(deep=False, data=_reference_lazy(expected))
        _cache[key] = (prod, da, twin, synth.image_name(spec, im), im, ref)
    return _cache[key]


def _reference_lazy(values):
    """the same xarray lazy-indexing stack over a trivially correct NumPy-backed BASIC backend"""
    import xarray as xr
    from xarray.core import indexing

    class RefBackend(xr.backends.BackendArray):
        shape = values.shape
        dtype = values.dtype

        def __getitem__(self, key):
            return indexing.explicit_indexing_adapter(
                key, self.shape, indexing.IndexingSupport.BASIC, lambda k: values[k]
            )

    return indexing.LazilyIndexedArray(RefBackend())


def describe(x):
    v = np.asarray(x.values)
    return {
        "dims": list(x.dims),
        "shape": list(x.shape),
        "loaded_shape": list(v.shape),
        "dtype": str(v.dtype),
        "bytes": v.tobytes().hex(),
        "coords": {str(k): [list(c.dims), str(c.dtype), np.asarray(c.values).tobytes().hex()] for k, c in sorted(x.coords.items())},
    }


def apply(da, op):
    """op = [spelling, rows-expr|None, cols-expr|None]"""
    import xarray as xr

    kind = op[0]
    if kind == "isel":
        kw = {}
        if op[1] is not None:
            kw["rows"] = to_obj(op[1])
        if op[2] is not None:
            kw["columns"] = to_obj(op[2])
        return da.isel(**kw)
    if kind == "getitem":
        return da[to_obj(op[1]), to_obj(op[2])]
    if kind == "vec":
        r = xr.DataArray(np.array(op[1], dtype="int64"), dims="z")
        c = xr.DataArray(np.array(op[2], dtype="int64"), dims="z")
        return da.isel(rows=r, columns=c)
    if kind == "sel":
        return da.sel(rows=to_obj(op[1]) if op[1][0] != "i" else op[1][1])
    raise ValueError(op)


def _origin(e):
    """innermost traceback frame that lies in xarray or in the library under test"""
    tb = e.__traceback__
    origin = "?"
    while tb is not None:
        fn = tb.tb_frame.f_code.co_filename
        if "/xarray/" in fn or "/ceos_alos2/" in fn:
            rel = fn.rsplit("site-packages/", 1)[-1]
            if "/ceos_alos2/" in fn:
                rel = "ceos_alos2/" + fn.rsplit("/ceos_alos2/", 1)[-1]
            origin = f"{rel}:{tb.tb_frame.f_code.co_name}"
        tb = tb.tb_next
    return origin


def outcome_of(arr, ops):
    """('value', description) or ('raise', type name, origin, message)"""
    try:
        cur = arr
        for op in ops:
            cur = apply(cur, op)
        return ("value", describe(cur))
    except Exception as e:
        return ("raise", type(e).__name__, _origin(e), str(e)[:120])


def compare(da, twin, ops, ref=None):
    """apply the chain ops to the lazy image and to the in-memory twin.
    -> (status, detail, extra) with status in ok | both-raise | mismatch"""
    want = outcome_of(twin, ops)
    got = outcome_of(da, ops)
    if want[0] == "raise":
        if got[0] == "raise":
            return "both-raise", want[1], {}
        return "mismatch", f"in-memory raises {want[1]} but lazy selection returned shape {got[1]['shape']}", {}
    extra = {}
    if got[0] == "raise":
        detail = f"lazy raises {got[1]} in <{got[2]}>: {got[3]}; in-memory gives shape {want[1]['shape']}"
        extra["raised_in"] = got[2]
    elif got[1] != want[1]:
        k = next(k for k in ("dims", "shape", "loaded_shape", "dtype", "coords", "bytes") if got[1][k] != want[1][k])
        detail = f"{k}: lazy {str(got[1][k])[:100]} != in-memory {str(want[1][k])[:100]}"
        extra["differs"] = k
    else:
        return "ok", "", {}
    if ref is not None:
        # attribution: does a trivially correct NumPy-backed BASIC backend under the same xarray
        # lazy-indexing layer deviate in exactly the same way?  Then /repo's code is not involved.
        r = outcome_of(ref, ops)
        same = r[:3] == got[:3] if got[0] == "raise" else r == got
        extra["xarray_ref_same"] = bool(same)
        if same:
            detail += " [a reference NumPy-backed BASIC backend under xarray's adapter deviates identically]"
    return "mismatch", detail, extra


def classify(op, status, extra=None):
    """signature class of a failing op (for known findings / dedup)"""
    sig = _classify(op, status)
    sig.update(extra or {})
    return sig


def _classify(op, status):
    def cls(e):
        if e is None:
            return "-"
        if op[0] == "vec":
            return f"v{len(e)}"
        return e[0]
    return {"kind": status, "rows": cls(op[1]) if len(op) > 1 else "-", "cols": cls(op[2]) if len(op) > 2 else "-", "spelling": op[0]}


def execute(case):
    """depth 1 batch: rows expressions x column expressions"""
    tc, L, P, rpc = case["type"], case["L"], case["P"], case["rpc"]
    prod, da, twin, fname, im, ref = opened(tc, L, P, rpc, fs=case.get("fs", "mcfs"))
    fails = []
    n = 0
    outcomes = {}
    for op in case["ops"]:
        status, detail, extra = compare(da, twin, [op], ref)
        n += 1
        outcomes[status] = outcomes.get(status, 0) + 1
        if status == "mismatch" and core.jkey(classify(op, status, extra)) not in {core.jkey(f["sig"]) for f in fails}:
            fails.append({"sig": classify(op, status, extra), "detail": f"{tc} {L}x{P} rpc={rpc} op={op}: {detail}", "case": {"type": tc, "L": L, "P": P, "rpc": rpc, "ops": [op], **({"fs": case["fs"]} if case.get("fs") else {})}})
    return {
        "ok": not fails,
        "failures": fails,
        "outcome": "+".join(f"{k}" for k in sorted(outcomes)),
        "nontrivial": outcomes.get("ok", 0) + outcomes.get("mismatch", 0) > 0,
        "n": n,
        "n_ok": outcomes.get("ok", 0),
        "n_raise": outcomes.get("both-raise", 0),
    }


# ---------------------------------------------------------------------------
# depth 2-3: BFS over chains of single-axis steps


def step_alphabet(m):
    """expressions for an axis of current length m (small, chosen to hit every shortcut)"""
    out = [["i", k] for k in range(-m, m)]
    for a in (None, 1, -1):
        for b in (None, 1, -1):
            for s in (None, 2, -1):
                out.append(["s", a, b, s])
    if m:
        out += [["a", [0]], ["a", [m - 1, 0]], ["m", [k % 2 == 0 for k in range(m)]]]
    out.append(["a", []])
    return out


def effective(twin_sel):
    """canonical state: which original (line, pixel) ids are selected, as arrays + dims"""
    return (tuple(twin_sel.dims), tuple(twin_sel.shape), np.asarray(twin_sel.values).tobytes())


def chain_search(case):
    """BFS to depth D over chains; returns counters and failures (runs in a worker)."""
    tc, L, P, rpc, D = case["type"], case["L"], case["P"], case["rpc"], case["depth"]
    dedup = case.get("dedup", True)
    prod, da, twin, fname, im, ref = opened(tc, L, P, rpc)
    # twin with unique values so that the effective selection identifies the state
    seen = {effective(twin): []}
    frontier = [[]]
    states, transitions, fails = 1, 0, []
    for depth in range(D):
        nxt = []
        for hist in frontier:
            cur = twin
            for op in hist:
                cur = apply(cur, op)
            for axis, dim in ((1, "rows"), (2, "columns")):
                if dim not in cur.dims:
                    continue
                m = cur.sizes[dim]
                for e in step_alphabet(m):
                    op = ["isel", None, None]
                    op[axis] = e
                    ops = hist + [op]
                    status, detail, extra = compare(da, twin, ops, ref)
                    transitions += 1
                    if status == "mismatch":
                        if core.jkey({**classify(op, status, extra), "depth": len(ops)}) not in {core.jkey(f["sig"]) for f in fails}:
                            fails.append({"sig": {**classify(op, status, extra), "depth": len(ops)}, "detail": f"{tc} {L}x{P} rpc={rpc} chain={ops}: {detail}", "case": {"fn": "replay_chain", "type": tc, "L": L, "P": P, "rpc": rpc, "chain": ops}})
                        continue
                    if status != "ok":
                        continue
                    new = apply(cur, op)
                    k = effective(new)
                    if not dedup or k not in seen:
                        seen[k] = ops
                        states += 1
                        nxt.append(ops)
        frontier = nxt
    return {
        "ok": not fails,
        "failures": fails,
        "outcome": f"chain-d{D}-{'ok' if not fails else 'mismatch'}",
        "nontrivial": True,
        "states": states if dedup else len(seen),
        "transitions": transitions,
    }


def replay_chain(case):
    prod, da, twin, fname, im, ref = opened(case["type"], case["L"], case["P"], case["rpc"])
    status, detail, extra = compare(da, twin, case["chain"], ref)
    return {"ok": status != "mismatch", "outcome": status, "detail": detail}


class InjectedFault(OSError):
    pass


def fault_retry(case):
    """a transient read error in the middle of a load, then the same and other selections again:
    after the exception every selection must still equal the in-memory image"""
    from mc import vfs

    tc, L, P, rpc = case["type"], case["L"], case["P"], case["rpc"]
    prod, da, twin, fname, im, ref = opened(tc, L, P, rpc)
    fails, n = [], 0
    warm = [["isel", ["i", 0], None], ["isel", ["s", None, None, None], None]]
    victims = [["isel", ["i", L - 1], None], ["isel", ["s", 1, None, None], None], ["isel", ["s", None, None, 2], None], ["isel", ["a", [L - 1, 0]], None]]
    after = [["isel", ["i", L - 1], None], ["isel", ["s", None, None, None], None], ["isel", ["i", 1 % L], ["i", 0]], ["isel", ["s", None, None, -1], None]]
    for w in warm:
        for v in victims:
            for k, m in [(k, m) for k in range(1, 4) for m in (1, 2, 3, 5)]:  # read events k .. k+m-1 of the victim load fail
                try:
                    outcome_of(da, [w])  # a successful load first (state from an earlier read)
                    count = [0]

                    def hook(ev, k=k, m=m, count=count):
                        if ev[0] == "read" and ev[1].endswith("/" + fname):
                            count[0] += 1
                            if k <= count[0] < k + m:
                                raise InjectedFault("injected transient read error")

                    vfs.HOOK[0] = hook
                    try:
                        r = outcome_of(da, [v])
                    finally:
                        vfs.HOOK[0] = None
                    injected = count[0] >= k
                    if injected and r[0] != "raise":
                        # the library may retry a failed read; what it then returns must be the right data
                        want = outcome_of(twin, [v])
                        if want[0] != "value" or r[1]["bytes"] != want[1]["bytes"] or r[1]["loaded_shape"] != want[1]["loaded_shape"]:
                            sig = {"kind": "fault-swallowed-wrong-result"}
                            if core.jkey(sig) not in {core.jkey(f["sig"]) for f in fails}:
                                fails.append({"sig": sig, "detail": f"{tc} {L}x{P} rpc={rpc}: {m} consecutive read errors from read #{k} of {v} (after {w}) were swallowed and the result is wrong (shape {r[1]['loaded_shape']})", "case": case})
                    for a in [v] + after:
                        n += 1
                        status, detail, extra = compare(da, twin, [a], ref)
                        if status == "mismatch" and not extra.get("xarray_ref_same"):
                            sig = {"kind": "after-fault-mismatch", "op": a[1][0]}
                            if core.jkey(sig) not in {core.jkey(f["sig"]) for f in fails}:
                                fails.append({"sig": sig, "detail": f"{tc} {L}x{P} rpc={rpc}: after {w}, a read error at read #{k} of {v}, then {a}: {detail}", "case": case})
                finally:
                    vfs.HOOK[0] = None
    return {"ok": not fails, "failures": fails, "outcome": "fault-retry-ok" if not fails else fails[0]["sig"]["kind"], "nontrivial": True, "n": n}


def batches(tc, L, P, rpc, ops, size=400):
    for i in range(0, len(ops), size):
        yield {"type": tc, "L": L, "P": P, "rpc": rpc, "ops": ops[i : i + size]}


def depth1_ops(L, P, tier, full_product=False):
    rows = full_alphabet(L)
    cols = full_alphabet(P) if full_product else representatives(P)
    ops = [["isel", r, c] for r in rows for c in cols]
    # columns alone get the full alphabet in both tiers
    ops += [["isel", None, c] for c in full_alphabet(P)]
    ops += [["isel", r, None] for r in rows]
    # spellings
    ops += [["getitem", r, c] for r in representatives(L) + ints(L) for c in representatives(P)]
    ops += [["sel", ["i", k], None] for k in range(0, L + 2)]
    ops += [["sel", ["a", [a, b]], None] for a in range(1, L + 1) for b in range(1, L + 1)]
    ops += [["sel", ["s", a, b, None], None] for a in [None] + list(range(0, L + 2)) for b in [None] + list(range(0, L + 2))]
    # vectorised (pointwise) indexing
    vr = [[k] for k in range(-L, L)] + ([[a, b] for a in range(-L, L) for b in range(-L, L)] if tier == "thorough" else [[0, L - 1], [L - 1, 0], [0, 0]])
    vc = [[k] for k in range(-P, P)] + ([[a, b] for a in range(-P, P) for b in range(-P, P)] if tier == "thorough" else [[0, P - 1], [P - 1, 0], [0, 0]])
    ops += [["vec", r, c] for r in vr for c in vc if len(r) == len(c)]
    ops.append(["vec", [], []])
    return ops


def plan(tier):
    geos = [("IU2", 4, 3), ("C*8", 4, 3), ("IU2", 5, 2), ("C*8", 1, 3), ("IU2", 3, 1)]
    if tier == "thorough":
        geos += [("C*8", 5, 2), ("IU2", 1, 3), ("C*8", 3, 1)]
    cases = []
    for tc, L, P in geos:
        rpcs = sorted({1, 2, L + 1}) if tier == "quick" else list(range(1, L + 2))
        for rpc in rpcs:
            # the full rows x columns cross product (8e5 expressions) only for two geometries in the thorough tier
            full = tier == "thorough" and (tc, L, P) in (("IU2", 4, 3), ("C*8", 3, 1)) and rpc in (1, 2, L + 1)
            cases += list(batches(tc, L, P, rpc, depth1_ops(L, P, tier, full), size=400 if not full else 4000))
    # an async fsspec implementation (code may merge or parallelise requests there): the rows alphabet on two geometries
    for tc, L, P in (("IU2", 5, 2), ("C*8", 4, 3)):
        rows = ints(L) + slices(L) + arrays(L)
        ops = [["isel", r, None] for r in rows] + [["isel", r, ["i", 0]] for r in rows[::5]]
        for rpc in (1, 2, 3):
            for b in batches(tc, L, P, rpc, ops, size=1500):
                cases.append({**b, "fs": "amcfs"})
    # longer images: several line groups per selection, strides up to 7 against group sizes 2..8
    mid = [("IU2", 11, 2, (3, 4))] if tier == "quick" else [("IU2", 11, 2, (2, 3, 4, 5, 8)), ("C*8", 13, 2, (2, 3, 4, 5, 6, 7, 8)), ("IU2", 16, 1, (4, 8))]
    # widths at which the pixel payload is exactly as long as the record prefix (layout-detection code may confuse the two)
    mid += [("IU2", 5, 96, (2, 3)), ("C*8", 5, 68, (2, 6))] if tier == "quick" else [("IU2", 5, 96, (1, 2, 3, 6)), ("C*8", 5, 68, (1, 2, 3, 6)), ("IU2", 6, 48, (2, 4)), ("C*8", 6, 136, (2, 4))]
    # hundreds of line groups (group numbers beyond 256): ints, strided and windowed slices, a few index arrays
    for tc, L, P, rpc in (("IU2", 700, 2, 2), ("C*8", 640, 1, 2)) if tier == "quick" else (("IU2", 700, 2, 2), ("C*8", 640, 1, 2), ("IU2", 1200, 1, 4), ("IU2", 2100, 1, 3)):
        rows = [["i", k] for k in (0, 1, L // 2, L - 2, L - 1, -1)] + [["s", a, b, st] for a in (None, 1, 500, L - 20) for b in (None, L - 1, 600) for st in (None, 2, 3, -1, -2, 7)] + [["a", [L - 1, 0]], ["a", [513, 514]], ["a", [600, 520]]]
        cases += list(batches(tc, L, P, rpc, [["isel", r, None] for r in rows] + [["isel", r, ["i", 0]] for r in rows[::4]], size=200))
    for tc, L, P, rpcs in mid:
        rows = ints(L) + slices(L, steps=(None, 1, -1, 2, -2, 3, -3, 4, -4, 5, -5, 7, -7)) + arrays(L) + (masks(L) if L <= 13 else [])
        ops = [["isel", r, None] for r in rows] + [["isel", r, ["i", P - 1]] for r in rows[:: 7]]
        for rpc in rpcs:
            cases += list(batches(tc, L, P, rpc, ops, size=1500))
    return cases


def chain_plan(tier):
    out = []
    for tc, L, P in (("IU2", 4, 3), ("C*8", 3, 2)):
        for rpc in (1, 2, L + 1) if tier == "thorough" else (2,):
            out.append({"type": tc, "L": L, "P": P, "rpc": rpc, "depth": 3 if tier == "thorough" else 2, "dedup": True})
    # cross-check of the canonicalisation: depth 2 without deduplication
    out.append({"type": "IU2", "L": 3, "P": 2, "rpc": 2, "depth": 2, "dedup": False})
    return out


def run(res, tier, seed):
    res.rule = (
        "depth 1: full per-axis alphabet (ints, slices with bounds None|-n-1..n+1 and steps None|+-1|+-2|+-3, int arrays len<=2 + [],"
        " all boolean masks) on rows x (all | 8 representative) column expressions, columns alone with the full alphabet,"
        " getitem/sel spellings and pointwise pairs; 11..16-line images with strides up to +-7 against line groups of 2..8; depth 2-3: BFS over chains of single-axis steps, state = effective"
        " selection (dims, shape, selected values of a position-coded twin); fault-retry: 1, 2, 3 or 5 consecutive read errors injected from the 1st/2nd/3rd"
        " read of a load (after an earlier successful load), then the same and other selections must still equal the twin. A batch is non-trivial if at least one"
        " expression is accepted by the in-memory twin (out-of-bounds expressions must raise on both sides)."
    )
    res.assumptions = ["xarray's lazy indexing adapter is trusted to decompose indexers; images <= 5x3 for the full alphabet, <= 16 lines for the rows alphabet"]
    n_expr = n_ok = n_raise = 0
    for idx, case, out in core.pool_map(__name__, "execute", plan(tier), chunksize=2):
        small = {k: case[k] for k in ("type", "L", "P", "rpc")}
        small["first_op"] = case["ops"][0]
        small["n_ops"] = len(case["ops"])
        res.record(small | {"batch": idx}, out, order=idx)
        n_expr += out["n"]
        n_ok += out["n_ok"]
        n_raise += out["n_raise"]
    states = transitions = 0
    for idx, case, out in core.pool_map(__name__, "chain_search", chain_plan(tier), chunksize=1):
        res.record(case, out, order=10**6 + idx)
        states += out["states"]
        transitions += out["transitions"]
    fr = [{"fn": "fault_retry", "type": tc, "L": L, "P": P, "rpc": rpc} for tc, L, P in (("IU2", 5, 2), ("C*8", 4, 3)) for rpc in (1, 2, 3, L + 1)]
    n_fault = 0
    for idx, case, out in core.pool_map(__name__, "fault_retry", fr, chunksize=1):
        res.record(case, out, order=2 * 10**6 + idx)
        n_fault += out["n"]
    res.extra["selections_after_injected_read_error"] = n_fault
    res.states = states
    res.transitions = transitions
    res.traces = n_expr + transitions
    res.extra.update({"index_expressions": n_expr, "accepted_by_twin": n_ok, "rejected_by_both": n_raise, "chain_states": states, "chain_transitions": transitions})
