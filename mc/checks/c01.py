"""C01 - pixel fidelity (DESIGN §4 C01).

Exhaustive small-scope enumeration: geometry x sample type x records_per_chunk
x filesystem x sample-pattern block; every product is opened with the public
``open_alos2`` and every image's ``data`` variable is loaded and compared
bit for bit (32-bit words / 16-bit words as unsigned integers) with the bytes
the independent encoder wrote.
"""
import os

import numpy as np

from mc import core, env, harness, synth

ID = "C01"
LEVEL = "exploration"

F32 = [
    0x00000000, 0x80000000,  # +-0
    0x3F800000, 0xBF800000,  # +-1
    0x00000001, 0x80000001,  # +-min denormal
    0x7F7FFFFF, 0xFF7FFFFF,  # +-max
    0x7F800000, 0xFF800000,  # +-inf
    0x7FC00000,  # quiet NaN
    0x7FC12345,  # quiet NaN with payload
    0xFFC00001,  # negative quiet NaN with payload
]
U16 = [0, 1, 0x00FF, 0x0100, 0x7FFF, 0x8000, 0xFFFF]


def matrices(type_code, L, P, seed):
    """list of sample matrices (big-endian raw words as uint arrays)"""
    idx = np.arange(L * P).reshape(L, P)
    out = []
    if type_code == "IU2":
        pos = ((idx * 257 + 1 + seed * 31) % 65536).astype(">u2")
        out.append(pos)
        a = np.array(U16, dtype=">u2")
        for s in range(len(U16)):
            out.append(a[(idx + s) % len(U16)])
    else:
        # position coded: real = 100*line + pixel + .25, imag = -(that) - .5
        ll, pp = np.meshgrid(np.arange(L), np.arange(P), indexing="ij")
        m = np.empty((L, P, 2), dtype=">f4")
        m[..., 0] = ll * 100 + pp + 0.25 + seed
        m[..., 1] = -(ll * 100 + pp) - 0.5
        out.append(m.view(">u4").reshape(L, P * 2))
        a = np.array(F32, dtype=">u4")
        n = len(F32)
        for s in range(n):
            for t in range(n):
                m = np.empty((L, P, 2), dtype=">u4")
                m[..., 0] = a[(idx + s) % n]
                m[..., 1] = a[(idx + t) % n]
                out.append(m.reshape(L, P * 2))
    return out


def blocks(type_code):
    n = 1 + (len(U16) if type_code == "IU2" else len(F32) ** 2)
    return (n + 7) // 8


def rpcs(L):
    return list(range(1, L + 3)) + [1024, 10**9]


def plan(tier, seed):
    cases = []
    maxL = 4 if tier == "quick" else 6
    for tc in ("IU2", "C*8"):
        for L in range(1, maxL + 1):
            for P in range(1, 5):
                for rpc in rpcs(L):
                    for fs in harness.FS_KINDS + ("amcfs",):
                        cases.append({"type": tc, "L": L, "P": P, "rpc": rpc, "fs": fs, "block": 0})
        geos = [(1, 1), (2, 3), (3, 2), (4, 4)] if tier == "quick" else [(L, P) for L in range(1, maxL + 1) for P in range(1, 5)]
        for L, P in geos:
            for rpc in sorted({1, 2, L, L + 1}):
                for fs in ("mcfs",) if tier == "quick" else ("mcfs", "local"):
                    for b in range(1, blocks(tc)):
                        cases.append({"type": tc, "L": L, "P": P, "rpc": rpc, "fs": fs, "block": b})
    for c in cases:
        c["seed"] = seed
    return cases


def execute(case):
    tc, L, P = case["type"], case["L"], case["P"]
    mats = matrices(tc, L, P, case.get("seed", 0))[case["block"] * 8 : case["block"] * 8 + 8]
    word = ">u2" if tc == "IU2" else ">u4"
    images = []
    for i, m in enumerate(mats):
        pol, scan = harness.IMAGE_NAMES[i + 4]  # scan-suffixed names: up to 8 distinct groups
        raw = [m[k].astype(word).tobytes() for k in range(L)]
        images.append(synth.image_spec(pol, scan, L, P, tc, samples=raw))
    spec = synth.product_spec("1.1" if tc == "C*8" else "1.5", images=images)
    files, _ = synth.build(spec)
    fails = []
    with harness.Product(files, case["fs"]) as prod:
        tree = prod.open(records_per_chunk=case["rpc"])
        for i, m in enumerate(mats):
            pol, scan = harness.IMAGE_NAMES[i + 4]
            name = harness.group_name(pol, scan)
            var = tree[f"imagery/{name}/data"]
            want_dtype = "uint16" if tc == "IU2" else "complex64"
            if tuple(var.shape) != (L, P):
                fails.append({"sig": {"kind": "shape"}, "detail": f"{name}: shape {var.shape} != {(L, P)}"})
                continue
            vals = np.asarray(var.values)
            if str(vals.dtype) != want_dtype or tuple(vals.shape) != (L, P):
                fails.append({"sig": {"kind": "dtype"}, "detail": f"{name}: loaded {vals.dtype}{vals.shape}, want {want_dtype}{(L, P)}"})
                continue
            got = np.ascontiguousarray(vals).view("=u2" if tc == "IU2" else "=u4").reshape(L, -1)
            want = m.astype("=u2" if tc == "IU2" else "=u4").reshape(L, -1)
            if not np.array_equal(got, want):
                bad = np.argwhere(got != want)[0]
                fails.append(
                    {
                        "sig": {"kind": "value", "type": tc},
                        "detail": f"{name}: word {tuple(int(x) for x in bad)} file=0x{int(want[tuple(bad)]):08x} loaded=0x{int(got[tuple(bad)]):08x}",
                    }
                )
                continue
            # the same opened array, read again in other orders (start from non-initial states): last line
            # first, then everything; line by line; first line, then everything - all must still be the file
            view = "=u2" if tc == "IU2" else "=u4"

            def words(x):
                return np.ascontiguousarray(np.asarray(x)).view(view).reshape(-1)

            # every line read alone and HELD while the others are read: a returned array must not change afterwards
            held = [np.asarray(var.isel(rows=k).values) for k in range(L)] + [np.asarray(var.isel(rows=k, columns=slice(0, max(P - 1, 1))).values) for k in range(L)]
            var.isel(rows=0).values
            stale = [k for k in range(L) if not np.array_equal(words(held[k]), want[k].reshape(-1))]
            stale += [k for k in range(L) if not np.array_equal(words(held[L + k]), want[k].reshape(P, -1)[: max(P - 1, 1)].reshape(-1))]
            if stale:
                fails.append({"sig": {"kind": "held-result-changed", "type": tc}, "detail": f"{name}: the arrays returned for lines {sorted(set(stale))} changed after later reads of the same image"})
                continue
            steps = [("last line", lambda: words(var.isel(rows=L - 1).values), want[L - 1]), ("full after last line", lambda: words(var.values), want.reshape(-1))]
            steps += [(f"line {k} alone", (lambda k=k: words(var.isel(rows=k).values)), want[k]) for k in range(L)]
            steps += [("first line", lambda: words(var.isel(rows=slice(0, 1)).values), want[0]), ("full after first line", lambda: words(var.values), want.reshape(-1))]
            for label, fn, expect in steps:
                try:
                    again = fn()
                except Exception as e:
                    fails.append({"sig": {"kind": "reread-raises", "type": tc}, "detail": f"{name}: {label} (after earlier reads of the same array) raises {type(e).__name__}: {str(e)[:80]}"})
                    break
                if not np.array_equal(again, expect.reshape(-1)):
                    fails.append({"sig": {"kind": "reread-value", "type": tc}, "detail": f"{name}: {label} (after earlier reads of the same array) differs from the file"})
                    break
    return {"ok": not fails, "failures": fails, "outcome": f"{tc}:{'ok' if not fails else fails[0]['sig']['kind']}", "nontrivial": True}


def execute_large(case):
    """realistically sized images (>= 1 MiB per chunk at the default rpc): size-dependent code paths"""
    tc, L, P, rpc = case["type"], case["L"], case["P"], case["rpc"]
    word = ">u2" if tc == "IU2" else ">u4"
    n = P if tc == "IU2" else 2 * P
    rng = np.random.default_rng(case.get("seed", 0) + L)
    m = rng.integers(0, 2**16 if tc == "IU2" else 2**31, size=(L, n), dtype="uint16" if tc == "IU2" else "uint32")
    if tc != "IU2":
        m = (m & np.uint32(0x7F7FFFFF)) | ((m & np.uint32(1)) << np.uint32(31))  # finite float32 patterns of both signs
    m = m.astype(word)
    raw = [m[k].tobytes() for k in range(L)]
    lv = None
    if case.get("fill"):
        # the line prefix declares fill pixels left and right of the data pixels (consistently: they add up to the width);
        # what is stored in those columns is still what the array holds
        left, right = case["fill"]
        lv = {("actual_count_of_left_fill_pixels", None): left, ("actual_count_of_data_pixels", None): P - left - right, ("actual_count_of_right_fill_pixels", None): right}
    spec = synth.product_spec("1.1" if tc == "C*8" else "1.5", images=[synth.image_spec("HH", None, L, P, tc, samples=raw, line_values=lv)])
    files, _ = synth.build(spec)
    if case.get("pad"):
        name = synth.file_names(spec)["img"][0]
        files[name] = files[name] + bytes((7 * k + 1) % 256 for k in range(case["pad"]))
    fails = []
    view = "=u2" if tc == "IU2" else "=u4"
    want = m.astype(view)
    with harness.Product(files, case["fs"]) as prod:
        try:
            tree = prod.open(**({"records_per_chunk": rpc} if rpc else {}))
        except Exception as e:
            if case.get("pad"):  # refusing a file with bytes behind its last record is fail-stop, not a wrong pixel
                return {"ok": True, "failures": [], "outcome": f"large:{tc}:padded-file-refused", "nontrivial": True}
            raise
        var = tree["imagery/HH/data"]
        sels = [("full", slice(None)), ("line 0", 0), ("middle line", L // 2), ("last line", L - 1), ("window of 5", slice(L // 3, L // 3 + 5)), ("every 16th", slice(None, None, 16)), ("every 2nd", slice(None, None, 2)), ("first half", slice(0, L // 2)), ("last 3", slice(L - 3, None)), ("every 3rd", slice(1, None, 3)), ("every 5th backwards", slice(None, None, -5)), ("lines beyond 1024", slice(min(1030, L - 1), min(1040, L))), ("misaligned bulk", slice(min(50, L // 3), L - min(50, L // 3))), ("all but the last", slice(0, L - 1)), ("full again", slice(None))]
        for label, sel in sels:
            got = np.ascontiguousarray(np.asarray(var.isel(rows=sel).values)).view(view)
            exp = want[sel]
            if got.reshape(-1).shape != exp.reshape(-1).shape or not np.array_equal(got.reshape(-1), exp.reshape(-1)):
                fails.append({"sig": {"kind": "large-image-value", "type": tc}, "detail": f"{tc} {L}x{P} rpc={rpc or 'default'} on {case['fs']}: selection '{label}' differs from the file"})
                break
        # results must stay what they were while later reads happen (no aliasing of a reused buffer), and copies of
        # the tree (deep copy, pickle round trip) must read the same file the same way
        import copy as _copy
        import pickle as _pickle

        held = [(k, np.asarray(var.isel(rows=k).values)) for k in (0, L // 2, L - 1)] + [("window", np.asarray(var.isel(rows=slice(L // 3, L // 3 + 5)).values))]
        var.isel(rows=slice(0, min(L, 40))).values
        for k, arr in held:
            exp = want[k] if k != "window" else want[L // 3 : L // 3 + 5]
            if not np.array_equal(np.ascontiguousarray(arr).view(view).reshape(-1), exp.reshape(-1)):
                fails.append({"sig": {"kind": "held-result-changed", "type": tc}, "detail": f"{tc} {L}x{P} rpc={rpc or 'default'}: the array returned for rows {k} changed after a later read of the same image"})
                break
        for how, clone in (("deep copy", lambda: tree.copy(deep=True)), ("pickle round trip", lambda: _pickle.loads(_pickle.dumps(tree))), ("copy.deepcopy of the variable", lambda: {"imagery/HH/data": _copy.deepcopy(var)})):
            try:
                cvar = clone()["imagery/HH/data"]
                got = np.ascontiguousarray(np.asarray(cvar.isel(rows=slice(0, L, max(L // 9, 1))).values)).view(view)
                if not np.array_equal(got.reshape(-1), want[:: max(L // 9, 1)].reshape(-1)):
                    fails.append({"sig": {"kind": "copy-value", "type": tc, "how": how}, "detail": f"{tc} {L}x{P} rpc={rpc or 'default'}: {how} of the tree loads other values than the file"})
            except Exception as e:
                fails.append({"sig": {"kind": "copy-raises", "type": tc, "how": how}, "detail": f"{tc} {L}x{P} rpc={rpc or 'default'}: {how}: {type(e).__name__}: {str(e)[:80]}"})
        for label, rsel, csel in (("line + pixel window", L // 2, slice(P // 2, P // 2 + 7)), ("window + pixel", slice(5, 9), P - 1)):
            got = np.ascontiguousarray(np.asarray(var.isel(rows=rsel, columns=csel).values))
            full = want if tc == "IU2" else want.reshape(L, P, 2)
            exp = full[rsel, csel]
            if not np.array_equal(got.view(view).reshape(-1), np.ascontiguousarray(exp).reshape(-1)):
                fails.append({"sig": {"kind": "large-image-value", "type": tc}, "detail": f"{tc} {L}x{P} rpc={rpc or 'default'}: selection '{label}' differs from the file"})
    return {"ok": not fails, "failures": fails, "outcome": f"large:{tc}:{'ok' if not fails else 'value'}", "nontrivial": True}


def execute_twins(case):
    """a level 1.1 and a level 1.5 image whose line records are equally long (544 + 8 P11 == 192 + 2 P15), opened one after the
    other in the same process, in both orders: whatever the library memoises per record length / chunk size must not leak"""
    L, rpc, p11 = case["L"], case["rpc"], case["P11"]
    p15 = 176 + 4 * p11
    fails = []
    order = [("C*8", p11), ("IU2", p15)]
    if case["reverse"]:
        order.reverse()
    for tc, P in order:
        rng = np.random.default_rng(P)
        n = P if tc == "IU2" else 2 * P
        m = rng.integers(0, 2**16 if tc == "IU2" else 2**30, size=(L, n), dtype="uint16" if tc == "IU2" else "uint32").astype(">u2" if tc == "IU2" else ">u4")
        spec = synth.product_spec("1.1" if tc == "C*8" else "1.5", images=[synth.image_spec("HH", None, L, P, tc, samples=[m[k].tobytes() for k in range(L)])])
        files, _ = synth.build(spec)
        with harness.Product(files, case["fs"]) as prod:
            try:
                var = prod.open(records_per_chunk=rpc)["imagery/HH/data"]
                vals = np.asarray(var.values)
                view = "=u2" if tc == "IU2" else "=u4"
                ok = tuple(var.shape) == (L, P) and vals.shape == (L, P) and np.array_equal(np.ascontiguousarray(vals).view(view).reshape(L, -1), m.astype(view))
                if not ok:
                    fails.append({"sig": {"kind": "twin-value", "type": tc}, "detail": f"{tc} {L}x{P} rpc={rpc} opened {'after' if (tc, P) == order[1] else 'before'} its twin of equal record length: shape {vals.shape} / values differ from the file", "case": {**case, "fn": "execute_twins"}})
            except Exception as e:
                fails.append({"sig": {"kind": "twin-raises", "type": tc, "exc": type(e).__name__}, "detail": f"{tc} {L}x{P} rpc={rpc} with a twin of equal record length: {type(e).__name__}: {str(e)[:100]}", "case": {**case, "fn": "execute_twins"}})
    return {"ok": not fails, "failures": fails, "outcome": "twins-ok" if not fails else fails[0]["sig"]["kind"], "nontrivial": True}


# pairs of sibling product directories whose names look alike (spelling, case, separators, Unicode forms, prefixes)
SIBLINGS = [
    ("ALOS2/Scene_0740", "alos2/scene_0740"),
    ("scene", "SCENE"),
    ("Straße", "STRASSE"),
    ("scene", "scene "),
    ("scene", "scene."),
    ("scene", "scene_"),
    ("scene", "scene/sub"),
    ("a/b", "a_b"),
    ("a/b", "a%2Fb"),
    ("a b", "a%20b"),
    ("sc\u00e9ne", "sce\u0301ne"),
    ("scene-1", "scene-10"),
    ("scene", "scene#1"),
    ("scene", "scene?x"),
    ("x/scene", "y/scene"),
]


def execute_siblings(case):
    """two different product directories with look-alike names hold an image file of the same name but different geometry; an
    index cache is created for one, then the other is opened with the defaults (and the other way round): each tree shows its own
    file's pixels"""
    import shutil

    import fsspec

    lib = env.import_lib()
    env.wipe_cache()
    a, b = case["pair"]
    fs_kind, rpc = case["fs"], case["rpc"]
    tag = f"sib_{os.getpid()}"
    geo = {a: (6, 9), b: (9, 14)}
    prods = {}
    base = env.scratch_root() / tag
    if base.exists():
        shutil.rmtree(base)
    mem = fsspec.filesystem("memory")
    for name, (L, P) in geo.items():
        spec = synth.product_spec("1.5", images=[synth.image_spec("HH", None, L, P, "IU2")])
        files, _ = synth.build(spec)
        if fs_kind == "memory":
            url = synth.write_memory(f"/{tag}/{name}", files)
        else:
            synth.write_local(base / name, files)
            url = str(base / name) if fs_kind == "local" else "file://" + str(base / name)
        prods[name] = (url, synth.default_samples(L, P, "IU2", 0).astype("uint16"))
    fails = []

    def check(name, what, **kw):
        url, want = prods[name]
        try:
            kw = {k: v for k, v in kw.items() if v is not None}
            var = lib.open_alos2(url + case.get("suffix", ""), backend_options=kw)["imagery/HH/data"]
            vals = np.asarray(var.values)
            if tuple(var.shape) != want.shape or vals.shape != want.shape or not np.array_equal(vals, want):
                fails.append({"sig": {"kind": "sibling-value", "what": what}, "detail": f"{case}: {name!r} {what}: shape {tuple(var.shape)}, its file holds {want.shape}; values {'differ' if vals.shape == want.shape else 'n/a'}", "case": {**case, "fn": "execute_siblings"}})
        except Exception as e:
            fails.append({"sig": {"kind": "sibling-raises", "what": what, "exc": type(e).__name__}, "detail": f"{case}: {name!r} {what}: {type(e).__name__}: {str(e)[:100]}", "case": {**case, "fn": "execute_siblings"}})

    try:
        for first, second in ((a, b), (b, a)):
            env.wipe_cache()
            check(first, "opened with create_cache=True", create_cache=True, records_per_chunk=rpc)
            check(second, "opened with the defaults after a cache was made for its sibling", records_per_chunk=rpc)
            check(second, "opened with create_cache=True after a cache was made for its sibling", create_cache=True, records_per_chunk=rpc)
            check(first, "opened with the defaults after both were cached", records_per_chunk=rpc)
            check(second, "opened with the defaults after both were cached", records_per_chunk=rpc)
    finally:
        env.wipe_cache()
        shutil.rmtree(base, ignore_errors=True)
        if fs_kind == "memory":
            try:
                mem.rm(f"/{tag}", recursive=True)
            except Exception:
                pass
    seen, uniq = set(), []
    for f in fails:
        if core.jkey(f["sig"]) not in seen:
            seen.add(core.jkey(f["sig"]))
            uniq.append(f)
    return {"ok": not uniq, "failures": uniq, "outcome": "siblings-ok" if not uniq else uniq[0]["sig"]["kind"], "nontrivial": True}


def large_plan(tier):
    cases = []
    for tc, L, P in (("IU2", 640, 1000), ("C*8", 320, 600)):
        for rpc in (None, 64, 1000, 1, 7):
            for fs in ("mcfs", "local") if tier == "quick" else harness.FS_KINDS:
                cases.append({"type": tc, "L": L, "P": P, "rpc": rpc, "fs": fs})
    # one chunk of > 8 MiB (very long lines), and in the thorough tier > 32 MiB
    cases.append({"type": "IU2", "L": 120, "P": 50000, "rpc": None, "fs": "mcfs"})
    cases.append({"type": "C*8", "L": 40, "P": 40000, "rpc": None, "fs": "mcfs"})
    # many lines: several line groups at the default rpc, hundreds of small groups
    for tc, L, P in (("IU2", 2500, 8), ("C*8", 2100, 3)):
        for rpc in (None, 1, 2, 3, 7, 100, 256, 1000, 1024, 2048):  # small rpc: line-group numbers beyond 256 and 1024
            cases.append({"type": tc, "L": L, "P": P, "rpc": rpc, "fs": "mcfs"})
    # >= 4096 lines, line counts that are / are not multiples of the request size, requests larger than the image
    for tc, L, P, rpcs in (("IU2", 5120, 4, (None, 8192, 1000, 512)), ("C*8", 4096, 2, (None, 4096, 100)), ("IU2", 4097, 1, (None, 4097))):
        for rpc in rpcs:
            cases.append({"type": tc, "L": L, "P": P, "rpc": rpc, "fs": "mcfs"})
    # request spans (rpc x record length - prefix) that are exactly a power of two / a MiB multiple, not at the end of the file
    # (record lengths are limited to 999999 by the 6-digit header field; rpc and P solve rpc x (prefix + bps P) - prefix == span)
    for tc, rpc, P in (("IU2", 2, 16336), ("C*8", 2, 4062), ("IU2", 2, 262096), ("C*8", 2, 65502), ("IU2", 4, 262072), ("C*8", 3, 87336), ("IU2", 4, 393144), ("C*8", 4, 98253), ("IU2", 8, 262060), ("C*8", 7, 74840), ("IU2", 10, 419344), ("C*8", 9, 116448)):
        cases.append({"type": tc, "L": 2 * rpc + 1, "P": P, "rpc": rpc, "fs": "local" if rpc == 3 else "mcfs"})
    # widths at which a quantity coincides with another one: pixel payload == prefix length (or half / twice it), record
    # length a power of two, payload == 720 (the descriptor length)
    for tc, widths in (("IU2", (96, 48, 192, 32, 160, 416, 360, 264)), ("C*8", (68, 34, 136, 60, 188, 90, 22))):
        for P in widths:
            for rpc in (2, 3, 1024):
                cases.append({"type": tc, "L": 7, "P": P, "rpc": rpc, "fs": "mcfs", "pad": 0})
    for tc in ("IU2", "C*8"):
        for fill in ((1, 0), (0, 2), (2, 3), (3, 3), (0, 0)):
            cases.append({"type": tc, "L": 6, "P": 12, "rpc": 4, "fs": "mcfs", "fill": list(fill)})
    # bytes behind the last record (files padded to a block size): never part of the image
    for tc, L, P in (("IU2", 10, 3), ("C*8", 7, 2)):
        for pad in (1, 86, 512):
            for rpc in (1, 3, 4, 7, 1024):
                cases.append({"type": tc, "L": L, "P": P, "rpc": rpc, "fs": "mcfs" if pad != 86 else "local", "pad": pad})
    # ~100 MB images: selections beyond 64 MiB, single requests of 5 MB / 80 MB / 96 MB
    cases.append({"type": "IU2", "L": 1300, "P": 40000, "rpc": None, "fs": "mcfs"})
    cases.append({"type": "IU2", "L": 1300, "P": 40000, "rpc": 64, "fs": "mcfs"})
    cases.append({"type": "C*8", "L": 300, "P": 40000, "rpc": 10, "fs": "mcfs"})
    if tier == "thorough":
        cases.append({"type": "C*8", "L": 300, "P": 40000, "rpc": None, "fs": "local"})
        cases.append({"type": "IU2", "L": 2600, "P": 50000, "rpc": 100, "fs": "mcfs"})
        cases.append({"type": "IU2", "L": 10000, "P": 4, "rpc": None, "fs": "mcfs"})
        cases.append({"type": "IU2", "L": 10000, "P": 4, "rpc": 512, "fs": "local"})
        cases.append({"type": "C*8", "L": 70000, "P": 1, "rpc": None, "fs": "mcfs"})
        cases.append({"type": "IU2", "L": 400, "P": 50000, "rpc": None, "fs": "mcfs"})
        cases.append({"type": "IU2", "L": 400, "P": 50000, "rpc": 100, "fs": "local"})
    return cases


def run(res, tier, seed):
    res.rule = (
        "full cross product geometry(L<=4|6 x P<=4) x type x rpc{1..L+2,1024,1e9} x filesystem{mcfs+storage_options,"
        "local path,file://,memory://,amcfs (async)} with position-coded samples, plus every (real,imag) pair of 13 float32 bit"
        " patterns / every uint16 pattern rotated over all pixel positions; a case is one product of up to 8 images;"
        " every case loads pixels, so all are non-trivial; distinct = distinct case tuples; plus realistically sized images (640x1000 IU2,"
        " 320x600 C*8: > 1 MiB per chunk at the default rpc) x rpc {default, 64, 1000, 1, 7}, and 120x50000 IU2 / 40x40000 C*8 (one chunk of 12 MiB; 40 MiB in the thorough tier) with"
        " 5120x4 / 4097x1 IU2 and 4096x2 C*8 (>= 4096 lines; line counts that are and are not multiples of the request size), 1300x40000 IU2 and 300x40000 C*8 (~100 MB: selections"
        " beyond 64 MiB, requests of 5..96 MB; 260 MB in the thorough tier),"
        " and 2500x8 IU2 / 2100x3 C*8 x rpc {default,1,100,256,1000,1024,2048} (10000 and 70000 lines in the thorough tier), each with"
        " full / single-line / window / strided reads, results held across later reads, deep copies and pickle round trips of the tree; 5-line images whose request"
        " span is exactly 2^16, 2^20, 2^21, 3*2^20, 2^22, 2^23 bytes; pairs of a 1.1 and a 1.5 image with equal record length opened in one process in both orders;"
        " 15 pairs of look-alike sibling product directories (case, separators, escapes, Unicode forms, prefixes) holding a same-named image of different geometry, x {local, file://, memory://}, cached and opened in both orders"
    )
    res.assumptions = [
        "signalling-NaN bit patterns are excluded (copy semantics are CPU/NumPy properties)",
        "filesystems: fsspec local, memory and the harness' mcfs (sync) and amcfs (async implementation) protocols",
    ]
    core.run_cases(res, __name__, plan(tier, seed))
    for idx, case, out in core.pool_map(__name__, "execute_large", [{**c, "seed": seed} for c in large_plan(tier)], chunksize=1):
        res.record({**case, "fn": "execute_large"}, out, order=10**6 + idx)
    twins = [{"L": L, "rpc": rpc, "P11": p11, "reverse": rev, "fs": fs} for L in (3, 5, 60) for rpc in (1, 2, 4, 1024) for p11 in (1, 2, 8) for rev in (False, True) for fs in ("mcfs", "local")]
    for idx, case, out in core.pool_map(__name__, "execute_twins", twins, chunksize=4):
        res.record({**case, "fn": "execute_twins"}, out, order=2 * 10**6 + idx)
    sib = [{"pair": list(pair), "fs": fs, "rpc": rpc, "suffix": sfx} for pair in SIBLINGS for fs in ("local", "file", "memory") for rpc, sfx in ((None, ""), (4, "/"))]
    for idx, case, out in core.pool_map(__name__, "execute_siblings", sib, chunksize=2):
        res.record({**case, "fn": "execute_siblings"}, out, order=3 * 10**6 + idx)
