"""C20 - blanks are 'missing', padding is inert (DESIGN §4 C20).

(a) every nullable value field of every record blanked individually, all
    nullable fields of a record at once, pairs within a record (thorough);
(b) every spare / blank / reserved area rewritten with every content of its
    character class, individually and all at once;
(c) thorough: byte-by-byte influence map of the leader and of both line-record
    prefixes - one well-formed single-byte change per byte, the set of changed
    leaves must be what the layout + leaf rules predict.
Oracle: the reference model (blank float -> NaN, int -> -1, text -> '', header
attributes absent, padding never read); any exception is a violation.
"""
from mc import alphabets, core, synth, treecheck

ID = "C20"
LEVEL = "exploration"

SPEC15 = {"level": "1.5", "images": [["HH", None, 2, 2]], "leader": {"n_att": 2, "n_chan": 2}}
SPEC11 = {"level": "1.1", "images": [["HH", None, 2, 2]], "leader": {"n_att": 2, "n_chan": 2}}

# counts, lengths, codes / flags and date-time texts the format requires to be filled
REQUIRED = {
    "map_projection.number_of_records",
    "scene_center_time",
    "map_projection_designator",
    "datetime_of_first_point.date",
    "datetime_of_first_point.seconds_of_day",
    "number_of_channels",
    "number_of_points",
    "time.day_of_year",
    "time.millisecond_of_day",
    "occurrence_flag_of_a_leap_second",
    "prf_switching_flag",
    "logical_volume_creation_datetime",
    "number_of_file_pointer_records",
    "number_of_sar_data_records",
    "sar_data_record_length",
    "sar_related_data_in_the_record.number_of_lines_per_dataset",
    "sar_related_data_in_the_record.number_of_data_groups_per_line",
    "prefix_suffix_data_locators.sar_data_format_type_code",
    "record_sequence_number",
}


def required(f):
    n = f["name"]
    return (
        n in REQUIRED
        or n.startswith("preamble.")
        or "enum" in f
        or f.get("flag")
        or n.endswith("_error")
        or n.endswith(".number_of_records")
        or n.endswith(".record_length")
        or n.endswith("_flag")
        or n.endswith("_code")
    )


def padding_like(name):
    last = name.split(".")[-1].split("[")[0]
    return synth.is_spare(name) or last.startswith("reserved") or last in ("system_reserve", "local_use_segment")


def record_instances(level):
    """(file, record instance, layout name) of every fixed-layout record instance of the small product"""
    out = [
        ("vol", "volume_descriptor", "vol.volume_descriptor"),
        ("vol", "text_record", "vol.text_record"),
        ("vol", "file_pointer[0]", "vol.file_pointer"),
        ("led", "file_descriptor", "led.file_descriptor"),
        ("led", "dataset_summary", "led.dataset_summary"),
        ("led", "platform_position", "led.platform_position"),
        ("led", "attitude_point[0]", "led.attitude_point"),
        ("led", "attitude_point[1]", "led.attitude_point"),
        ("led", "radiometric_data", "led.radiometric_data"),
        ("led", "data_quality_summary", "led.dq_head"),
        ("led", "dq_rel_radiometric[1]", "led.dq_calibration_uncertainty"),
        ("led", "dq_abs_geometric", "led.dq_abs_geometric"),
        ("led", "dq_rel_geometric[0]", "led.dq_misregistration_error"),
        ("led", "facility_related_data_2", "led.facility_head"),
        ("led", "facility_related_data_5", "led.facility_related_data_5"),
        ("img0", "file_descriptor", "img.file_descriptor"),
    ]
    if level != "1.1":
        out.insert(5, ("led", "map_projection", "led.map_projection"))
    return out


def line_layout(level):
    return synth.TYPE_INFO["C*8" if level == "1.1" else "IU2"]["rec"]


def dev(file, inst, f, b, line=None):
    d = [file, inst if not inst.startswith("line") else "line", f["key"], {"hex": b.hex()}]
    if line is not None:
        d.append(line)
    return d


def plan(tier, seed):
    cases = []
    for spec in (SPEC15, SPEC11):
        level = spec["level"]
        cases.append({"spec": spec, "devs": [], "label": f"{level} baseline"})
        all_spares = []
        for file, inst, lay_name in record_instances(level):
            lay = synth.layout(lay_name)
            nullable = [f for f in lay.fields if f["kind"] in "AIFC" and not required(f) and not padding_like(f["name"])]
            for f in nullable:
                cases.append({"spec": spec, "devs": [dev(file, inst, f, b" " * f["w"])], "label": f"{level} blank {file}.{inst}.{f['key']}"})
                if f["kind"] == "C":
                    # the real and imaginary parts are separate nullable fields of the format
                    h = f["w"] // 2
                    val = synth.baseline_value(f, 6)
                    cases.append({"spec": spec, "devs": [dev(file, inst, f, b" " * h + val[h:])], "label": f"{level} blank real part of {file}.{inst}.{f['key']}"})
                    cases.append({"spec": spec, "devs": [dev(file, inst, f, val[:h] + b" " * h)], "label": f"{level} blank imaginary part of {file}.{inst}.{f['key']}"})
            if nullable:
                cases.append({"spec": spec, "devs": [dev(file, inst, f, b" " * f["w"]) for f in nullable], "label": f"{level} blank all of {file}.{inst}"})
            if tier == "thorough" and len(nullable) <= 80:
                for i, a in enumerate(nullable):
                    for b in nullable[i + 1 :]:
                        cases.append({"spec": spec, "devs": [dev(file, inst, a, b" " * a["w"]), dev(file, inst, b, b" " * b["w"])], "label": f"{level} blank pair {inst}.{a['key']}+{b['key']}"})
            spares = [f for f in lay.fields if padding_like(f["name"])]
            for f in spares:
                contents = alphabets.spare_contents(f)
                for label, b in contents:
                    cases.append({"spec": spec, "devs": [dev(file, inst, f, b)], "label": f"{level} spare {file}.{inst}.{f['key']}={label}"})
                if contents:
                    all_spares.append(dev(file, inst, f, contents[-1][1]))
        # spare areas of the line records (binary)
        ll = synth.layout(line_layout(level))
        for f in ll.fields:
            if padding_like(f["name"]):
                for label, b in alphabets.spare_contents(f):
                    cases.append({"spec": spec, "devs": [dev("img0", "line", f, b, 1)], "label": f"{level} spare line.{f['key']}={label}"})
                    all_spares.append(dev("img0", "line", f, alphabets.spare_contents(f)[-1][1], 0))
        # length-dependent padding areas
        for key, pad in (("rel_radiometric", b"~"), ("rel_geometric", b"9"), ("rel_geometric", b"Aa ")):
            cases.append({"spec": spec, "devs": [["led", "dq_padding", key, {"hex": pad.hex()}]], "label": f"{level} data-quality padding {key}={pad!r}"})
        for k in (1, 2, 3, 4):
            cases.append({"spec": spec, "devs": [["led", f"facility_related_data_{k}", "raw_file_data", {"hex": (b"ignored content %d " % k).hex()}]], "label": f"{level} facility record {k} content"})
        cases.append({"spec": spec, "devs": all_spares, "label": f"{level} all spare areas rewritten at once"})
    # a second baseline in which all numeric fields of a record hold the SAME value (a blank must not be filled in from an
    # equal / related neighbour), and the map-projection record under every supported designator
    variants = [(SPEC15, None), (SPEC11, None)]
    for des in ("LCC-PROJECTION", "MER-PROJECTION", "UPS-PROJECTION", "UTM-PROJECTION"):
        variants.append(({**SPEC15, "level": "3.1" if des[:3] in ("LCC", "MER") else "1.5", "leader": {**SPEC15["leader"], "n_mp": 1, "designator": des}}, des))
    for spec, des in variants:
        level = spec["level"]
        for file, inst, lay_name in record_instances(level):
            if des is not None and inst != "map_projection":
                continue
            lay = synth.layout(lay_name)
            nullable = [f for f in lay.fields if f["kind"] in "AIFC" and not required(f) and not padding_like(f["name"])]
            numeric = [f for f in nullable if f["kind"] in "IF"]
            if len(numeric) < 2:
                continue
            for text in ("35", "0"):
                uniform = {f["key"]: dev(file, inst, f, text.rjust(f["w"]).encode()) for f in numeric}
                cases.append({"spec": spec, "devs": list(uniform.values()), "label": f"{level} {des or ''} uniform {text} in {file}.{inst}"})
                for f in nullable:
                    if des is None and text == "0" and f["idx"] % 3:
                        continue  # the second uniform value only on a third of the fields outside the map projection (cost)
                    devs = [d for k, d in uniform.items() if k != f["key"]] + [dev(file, inst, f, b" " * f["w"])]
                    cases.append({"spec": spec, "devs": devs, "label": f"{level} {des or ''} blank {file}.{inst}.{f['key']} among fields that all hold {text}"})
            if des is not None:
                for f in nullable:
                    cases.append({"spec": spec, "devs": [dev(file, inst, f, b" " * f["w"])], "label": f"{level} {des} blank {file}.{inst}.{f['key']}"})
                # ... and in a footprint that crosses the antimeridian near a pole (values special for geographic code)
                geo = {}
                for i, f in enumerate(x for x in nullable if x["key"].endswith("longitude")):
                    geo[f["key"]] = dev(file, inst, f, f"{(179.9, -179.8, -179.9, 179.8)[i % 4]:.4f}".rjust(f["w"]).encode())
                for i, f in enumerate(x for x in nullable if x["key"].endswith("latitude")):
                    geo[f["key"]] = dev(file, inst, f, f"{(89.9, 89.8, -89.9, 0.0)[i % 4]:.4f}".rjust(f["w"]).encode())
                cases.append({"spec": spec, "devs": list(geo.values()), "label": f"{level} {des} footprint across the antimeridian"})
                for f in nullable:
                    if f["key"] in geo:
                        cases.append({"spec": spec, "devs": [d for k, d in geo.items() if k != f["key"]] + [dev(file, inst, f, b" " * f["w"])], "label": f"{level} {des} blank {file}.{inst}.{f['key']} in a footprint across the antimeridian"})
    # the image file descriptor under ScanSAR file names (-F<n> full aperture, -B<n> SPECAN): what a blank header field
    # means must not depend on how the file is called
    for level, scan in (("1.1", "F1"), ("1.1", "B2"), ("1.5", "F3"), ("1.5", "B1")):
        spec = {**(SPEC11 if level == "1.1" else SPEC15), "images": [["HH", scan, 4, 2]]}
        lay = synth.layout("img.file_descriptor")
        nullable = [f for f in lay.fields if f["kind"] in "AIFC" and not required(f) and not padding_like(f["name"])]
        cases.append({"spec": spec, "devs": [], "label": f"{level} {scan} baseline"})
        for f in nullable:
            cases.append({"spec": spec, "devs": [dev("img0", "file_descriptor", f, b" " * f["w"])], "label": f"{level} image named -{scan}: blank img0.file_descriptor.{f['key']}"})
        cases.append({"spec": spec, "devs": [dev("img0", "file_descriptor", f, b" " * f["w"]) for f in nullable], "label": f"{level} image named -{scan}: blank all of img0.file_descriptor"})
        numeric = [f for f in nullable if f["kind"] in "IF"]
        for f in numeric:
            devs = [dev("img0", "file_descriptor", g, "4".rjust(g["w"]).encode()) for g in numeric if g["key"] != f["key"]] + [dev("img0", "file_descriptor", f, b" " * f["w"])]
            cases.append({"spec": spec, "devs": devs, "label": f"{level} image named -{scan}: blank img0.file_descriptor.{f['key']} among fields that all hold 4"})
    # the spare areas again under other values of the short text fields that identify a format revision (a reader may
    # interpret a blank area differently for another revision): image and leader file descriptors, volume descriptor
    for spec in (SPEC15, SPEC11):
        level = spec["level"]
        for file, inst, lay_name in (("img0", "file_descriptor", "img.file_descriptor"), ("led", "file_descriptor", "led.file_descriptor"), ("vol", "volume_descriptor", "vol.volume_descriptor")):
            lay = synth.layout(lay_name)
            revs = [f for f in lay.fields if "revision" in f["name"] and f["kind"] == "A" and f["w"] <= 2]
            spares = [f for f in lay.fields if padding_like(f["name"]) and alphabets.spare_contents(f)]
            for letter in ("A", "B", "C", "Z", "1"):
                rdevs = [dev(file, inst, f, letter.ljust(f["w"]).encode()) for f in revs]
                cases.append({"spec": spec, "devs": rdevs, "label": f"{level} {file}.{inst} revision fields = {letter}"})
                for j in range(3):
                    sdevs = [dev(file, inst, f, alphabets.spare_contents(f)[j % len(alphabets.spare_contents(f))][1]) for f in spares]
                    cases.append({"spec": spec, "devs": rdevs + sdevs, "label": f"{level} {file}.{inst} revision fields = {letter}, all spare areas rewritten (content {j})"})
    if tier == "thorough":
        cases += influence_cases()
    return cases


def influence_cases():
    """one well-formed single-byte change per byte of the leader records and both line prefixes"""
    out = []
    for spec in (SPEC15, SPEC11):
        level = spec["level"]
        sp = treecheck.spec_from_case({"spec": spec, "devs": []})
        _, resolved = synth.build(sp)
        targets = [(file, inst, lay) for file, inst, lay in record_instances(level) if file == "led"] if level == "1.5" else []
        targets.append(("img0", "line[1]", line_layout(level)))
        for file, inst, lay_name in targets:
            lay = synth.layout(lay_name)
            vals = resolved[(file, inst)]
            for f in lay.fields:
                if f["name"].startswith("preamble.") or (required(f) and f["kind"] not in ("B",)) or f["kind"] in ("ydms", "us"):
                    continue
                if "enum" in f or f.get("flag"):
                    continue
                old = vals[f["key"]]
                for j in range(f["w"]):
                    c = old[j : j + 1]
                    if f["kind"] in "IFC" and not padding_like(f["name"]):
                        if not c.isdigit():
                            continue
                        new = b"%d" % ((int(c) + 3) % 10)
                    elif f["kind"] in ("B", "X"):
                        new = bytes([c[0] ^ 1])
                    else:
                        new = b"Q" if c != b"Q" else b"R"
                        if f["kind"] in "IF":
                            continue  # numeric spares are covered by (b); a letter would not be well-formed
                    b = old[:j] + new + old[j + 1 :]
                    out.append({"spec": spec, "devs": [dev(file, inst, f, b, 1 if inst.startswith("line") else None)], "label": f"{level} byte {j} of {file}.{inst}.{f['key']}"})
    return out


_baseline_extras = {}


def extras_of(out):
    """leaves of the real tree that the reference model does not describe (must never depend on a deviation)"""
    exp = out.get("expected", {})
    return {k: v for k, v in out.get("actual", {}).items() if k not in exp and f"{k}?blank" not in exp and not k.startswith("/summary")}


def execute(case):
    IGN = ("/metadata/attitude/attitude:time", "/metadata/attitude/rates:time", "/summary")
    key = core.jkey(case["spec"])
    if key not in _baseline_extras:
        base = treecheck.check_spec(treecheck.spec_from_case({"spec": case["spec"], "devs": []}), ignore=IGN)
        _baseline_extras[key] = extras_of(base)
    spec = treecheck.spec_from_case(case)
    out = treecheck.check_spec(spec, ignore=IGN)
    fails = out["failures"]
    if "actual" in out:
        # differential oracle for everything outside the leaf table: identical to the baseline's
        ex, base = extras_of(out), _baseline_extras[key]
        for k in sorted(set(ex) | set(base)):
            if ex.get(k) != base.get(k):
                fails.append({"sig": {"kind": "unmodelled-leaf-changed", "leaf": k}, "detail": f"leaf {k} (not part of the documented tree) changed: {str(base.get(k))[:60]} -> {str(ex.get(k))[:60]}"})
                break
    for f in fails:
        f["detail"] = f"{case['label']}: {f['detail']}"
        f["case"] = case
    return {"ok": not fails, "failures": fails, "outcome": "ok" if not fails else fails[0]["sig"].get("kind", "leaf-mismatch"), "nontrivial": bool(case["devs"]), "unverified": out["unverified"][:10]}


def run(res, tier, seed):
    res.rule = (
        "level 1.5 and 1.1 products: every nullable ASCII value field (not a count/length/code/flag/date-time) of every record"
        " blanked alone, all of a record at once (+ all pairs within a record, thorough), and alone in a record whose numeric fields all hold the same value (35 / 0);" " the map-projection record under each of the LCC / MER / UPS / UTM designators; the image descriptor under -F<n> / -B<n> file names; spare areas rewritten under revision letters A/B/C/Z/1; every spare/blank/reserved area"
        " (text, numeric, binary, length-dependent padding, ignored facility content) rewritten with each content of its character"
        " class, alone and all at once; thorough: one well-formed single-byte change for every byte of every leader value field"
        " and of both line-record prefixes. The whole tree (except attitude time, C17) is compared with the reference model."
    )
    res.assumptions = ["fields whose role is doubtful are treated as required (exempt): loses coverage, never alarms", "text areas hold printable ASCII, numeric spares hold numbers (the property's character classes)"]
    unv = set()
    for idx, case, out in core.pool_map(__name__, "execute", plan(tier, seed), chunksize=4):
        res.record(case if len(case["devs"]) <= 3 else {"label": case["label"], "n_devs": len(case["devs"])}, out, order=idx)
        unv.update(out["unverified"])
    res.extra["unverified_leaves"] = sorted(unv)[:50]
