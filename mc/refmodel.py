"""E2: reference tree model.  Expected *semantic leaves* of the tree for a spec,
computed only from the bytes the encoder wrote (``resolved``) and the frozen
layout tables.  Imports nothing from ceos_alos2.

Leaf formats (shared with ``semantic(tree)`` below):
  ``<path>@<attr>``  -> canonical value (treesnap.canon)
  ``<path>:<var>``   -> {"role", "dims", "dtype", "shape", "attrs", "values"}
  ``<path>#children``-> sorted child names
The mapping field -> leaf is the *rule* (group path = enclosing struct path,
leaf name = field name, units => 0-d variable, else attribute) plus the
per-record exception lists below, which were written from the format
documentation embedded in the pinned source and validated by influence probing
(DESIGN §3 E2).
"""
import datetime as dt
import math
import re

import numpy as np

from mc import synth
from mc.treesnap import canon

REFERENCE_DOCUMENT = "https://www.eorc.jaxa.jp/ALOS-2/en/doc/fdata/PALSAR-2_xx_Format_CEOS_E_f.pdf"

# ---------------------------------------------------------------------------
# decoding of one field from its bytes (the independent "boring" decoder)


def text(b):
    return b.decode("ascii")


def dec_int(b):
    s = text(b).strip()
    return int(s) if s else -1


def dec_float(b):
    s = text(b).strip()
    return float(s) if s else float("nan")


def decode_field(f, b):
    """python value of layout field f stored as bytes b"""
    kind = f["kind"]
    if kind == "A":
        v = text(b).strip()
    elif kind == "I":
        v = dec_int(b)
    elif kind == "F":
        v = dec_float(b)
    elif kind == "C":
        h = len(b) // 2
        v = complex(dec_float(b[:h]), dec_float(b[h:]))
    elif kind == "B":
        v = int.from_bytes(b, "big")
    elif kind == "X":
        v = b.strip(b"\x00")
    else:
        raise ValueError(kind)
    if "enum" in f:
        rev = {code: name for name, code in f["enum"].items()}
        v = rev.get(v, v)
    if f.get("flag"):
        v = bool(v)
    if "factor" in f:
        v = v * f["factor"]
    return v


def ydms_to_ns(b):
    """(year, day_of_year, ms) with day 1 = 1 January -> ns since epoch"""
    year, doy, ms = (int.from_bytes(b[i : i + 4], "big") for i in (0, 4, 8))
    d = dt.datetime(year, 1, 1) + dt.timedelta(days=doy - 1, milliseconds=ms)
    return to_ns(d)


def to_ns(d):
    delta = d - dt.datetime(1970, 1, 1)
    return (delta.days * 86400 + delta.seconds) * 10**9 + delta.microseconds * 1000


def iso_compact(s):
    """'YYYYmmddHHMMSSffffff' (fraction 1..6 digits) -> ISO 8601 like datetime.isoformat()"""
    d = dt.datetime(int(s[0:4]), int(s[4:6]), int(s[6:8]), int(s[8:10]), int(s[10:12]), int(s[12:14]))
    frac = s[14:]
    if frac:
        d = d.replace(microsecond=int(frac.ljust(6, "0")[:6]))
    return d.isoformat()


# ---------------------------------------------------------------------------
# leaves builder


class Leaves(dict):
    def attr(self, path, name, value):
        self[f"{path}@{name}"] = canon(value)
        self.group(path)

    def var(self, path, name, dims, values, attrs=None, role="var", dtype=None, scaled=False):
        arr = values
        flat, shape = _flatten(arr)
        if list(dims) == [name]:
            role = "coord"  # a variable named like its dimension is an index coordinate
        self[f"{path}:{name}"] = {
            "role": role,
            "dims": list(dims),
            "dtype": dtype or _dtype_of(flat),
            "shape": shape,
            "attrs": {k: canon(v) for k, v in (attrs or {}).items()},
            "values": [canon(v) for v in flat],
            "scaled": scaled,
        }
        self.group(path)

    def group(self, path):
        self.setdefault(f"{path}#group", True)
        parent = path
        while parent != "/":
            parent, _, child = parent.rpartition("/")
            parent = parent or "/"
            self.setdefault(f"{parent}#group", True)
            self.setdefault(f"{parent}#children", set()).add(child)


def _flatten(arr):
    if isinstance(arr, list):
        if arr and isinstance(arr[0], list):
            return [x for row in arr for x in row], [len(arr), len(arr[0])]
        return list(arr), [len(arr)]
    return [arr], []


def _dtype_of(flat):
    if not flat:
        return "float64"
    v = flat[0]
    if isinstance(v, DT):
        return "datetime64[ns]"
    if isinstance(v, bool):
        return "bool"
    if isinstance(v, int):
        return "int64"
    if isinstance(v, float):
        return "float64"
    if isinstance(v, complex):
        return "complex128"
    if isinstance(v, str):
        return "U"
    if isinstance(v, DT):
        return "datetime64[ns]"
    raise ValueError(v)


class DT(int):
    """nanoseconds since the epoch, rendered as a datetime leaf"""


def _canon_dt(v):
    return ["datetime", int(v)]


# teach canon about DT without importing refmodel from treesnap
_orig_canon = canon


def canon(v):  # noqa: F811
    if isinstance(v, DT):
        return _canon_dt(v)
    return _orig_canon(v)


# ---------------------------------------------------------------------------
# generic rule


def _parts(name):
    return name.split(".")


def generic(L, base, lay_name, fields, ignored_top=(), ignored_full=(), leaf_renames=None, group_renames=None, transforms=None, skip_prefixes=()):
    """rule: group path = enclosing struct path, leaf = field name, units => variable"""
    lay = synth.layout(lay_name)
    leaf_renames = leaf_renames or {}
    group_renames = group_renames or {}
    transforms = transforms or {}
    for f in lay.fields:
        key = f["key"]
        name = f["name"]
        parts = _parts(name)
        if parts[0] in ignored_top or name in ignored_full or synth.is_spare(name):
            continue
        if any(name.startswith(p) for p in skip_prefixes):
            continue
        if "[" in name:
            continue  # arrays are handled by the record's exception code
        v = decode_field(f, fields[key])
        if name in transforms:
            v = transforms[name](v)
        gparts = [group_renames.get(p, p) for p in parts[:-1]]
        path = "/".join([base] + gparts)
        leaf = leaf_renames.get(name, leaf_renames.get(parts[-1], parts[-1]))
        attrs = f.get("attrs")
        if attrs is not None:
            L.var(path, leaf, (), v, attrs, scaled="factor" in f)
            if "factor" in f and f["kind"] == "F":
                # "the number written, converted with the scale factor": the exactly scaled decimal is as right as the
                # product of the two rounded doubles (they differ when the written number is subnormal)
                import fractions

                t = text(fields[key]).strip()
                try:
                    exact = float(fractions.Fraction(t) * fractions.Fraction(repr(f["factor"])))
                    L[f"{path}:{leaf}"]["alt_values"] = [canon(exact)]
                    if 0 < abs(float(t)) < 2.3e-308:
                        # a subnormal written number has no exact double: any result within the rounding of the input counts
                        L[f"{path}:{leaf}"]["loose"] = True
                except (ValueError, ZeroDivisionError, OverflowError):
                    pass
        else:
            L.attr(path, leaf, v)
    for m in lay.meta:
        parts = _parts(m["name"])
        if parts[0] in ignored_top:
            continue
        gparts = [group_renames.get(p, p) for p in parts]
        path = "/".join([base] + gparts)
        for k, v in m["attrs"].items():
            L.attr(path, k, v)


# ---------------------------------------------------------------------------
# leader records

DS_IGNORED = (
    "preamble",
    "dataset_summary_records_sequence_number",
    "sar_channel_id",
    "number_of_scene_reference",
    "average_terrain_height_above_ellipsoid_at_scene_center",
    "processing_scene_length",
    "processing_scene_width",
    "range_pulse_phase_coefficients",
    "processing_code_of_processing_facility",
    "processing_algorithm_id",
    "radiometric_bias",
    "radiometric_gain",
    "time_direction_indicator_along_pixel_direction",
    "parameter_table_number_of_automatically_setting",
    "image_annotation_segment",
)


def dataset_summary(L, r):
    generic(
        L,
        "/metadata/dataset_summary",
        "led.dataset_summary",
        r,
        ignored_top=DS_IGNORED,
        transforms={"scene_center_time": iso_compact},
    )


def map_projection(L, r):
    base = "/metadata/map_projection"
    lay = synth.layout("led.map_projection")
    designator = text(r["map_projection_designator"]).strip().lower().split("-", 1)[0]
    keep = {"utm": "utm_projection", "ups": "ups_projection", "lcc": "national_system_projection", "mer": "national_system_projection"}.get(designator)
    drop = {"utm_projection", "ups_projection", "national_system_projection"} - {keep}
    generic(
        L,
        base,
        "led.map_projection",
        r,
        ignored_top=("preamble", "map_projection_designator", "corner_points", "conversion_coefficients") + tuple(drop),
        ignored_full=("map_projection_ellipsoid_parameters.scale_factor",),
        skip_prefixes=(
            "map_projection_ellipsoid_parameters.datum_shift_parameters.",
            f"{keep}.map_origin.",
            f"{keep}.standard_parallel2.",
            f"{keep}.central_meridian.",
        ),
        leaf_renames={
            "map_projection_general_information.number_of_pixels_per_line": "n_columns",
            "map_projection_general_information.number_of_lines": "n_rows",
        },
        group_renames={
            "map_projection_general_information": "general_information",
            "map_projection_ellipsoid_parameters": "ellipsoid_parameters",
            keep: "projection",
        },
    )
    corners = ["top_left", "top_right", "bottom_right", "bottom_left"]
    for section, names in (("projected", ("northing", "easting")), ("geographic", ("latitude", "longitude"))):
        path = f"{base}/corner_points/{section}"
        for nm in names:
            vals, attrs = [], None
            for c in corners:
                f = lay.by_name[f"corner_points.{section}.{c}_corner.{nm}"]
                vals.append(decode_field(f, r[f["key"]]))
                attrs = f.get("attrs")
            L.var(path, nm, ["corner"], vals, attrs)
        L.var(path, "corner", ["corner"], corners, {})
    for src, dst, prefix in (("map_projection_to_pixels", "projected_to_image", "A"), ("pixels_to_map_projection", "image_to_projected", "B")):
        path = f"{base}/conversion_coefficients/{dst}"
        names = [f"{prefix}{i}{j}" for i in (1, 2) for j in (1, 2, 3, 4)]
        vals = [decode_field(lay.by_name[f"conversion_coefficients.{src}.{n}"], r[f"conversion_coefficients.{src}.{n}"]) for n in names]
        L.var(path, "names", ["names"], names, {})
        L.var(path, "coefficients", ["names"], vals, {})
        meta = next(m for m in lay.meta if m["name"] == f"conversion_coefficients.{src}")
        for k, v in meta["attrs"].items():
            L.attr(path, k, v)


def platform_position(L, r):
    base = "/metadata/platform_position"
    lay = synth.layout("led.platform_position")
    generic(
        L,
        base,
        "led.platform_position",
        r,
        ignored_top=("preamble", "number_of_data_points", "greenwich_mean_hour_angle", "datetime_of_first_point", "orbital_elements_designator"),
        leaf_renames={"occurrence_flag_of_a_leap_second": "leap_second", "time_interval_between_data_points": "sampling_frequency"},
        transforms={"occurrence_flag_of_a_leap_second": bool},
    )
    f = lay.by_name["orbital_elements_designator"]
    L.attr(f"{base}/orbital_elements", "type", decode_field(f, r["orbital_elements_designator"]))
    date = "-".join(text(r["datetime_of_first_point.date"]).split())
    y, m, d = (int(x) for x in date.split("-"))
    first = dt.datetime(y, m, d) + dt.timedelta(seconds=dec_float(r["datetime_of_first_point.seconds_of_day"]))
    L.attr(base, "datetime_of_first_point", first.isoformat())
    for section in ("position", "velocity"):
        for ax in "xyz":
            vals, attrs = [], None
            for k in range(28):
                f = lay.by_name[f"positions[{k}].{section}.{ax}"]
                vals.append(decode_field(f, r[f["key"]]))
                attrs = f.get("attrs")
            L.var(f"{base}/positions/{section}", ax, ["positions"], vals, attrs)
    return y


def attitude(L, resolved, year, n_att, plus_days=0):
    base = "/metadata/attitude"
    lay = synth.layout("led.attitude_point")
    times = []
    for k in range(n_att):
        r = resolved[("led", f"attitude_point[{k}]")]
        doy = dec_int(r["time.day_of_year"])
        ms = dec_int(r["time.millisecond_of_day"])
        d = dt.datetime(year, 1, 1) + dt.timedelta(days=doy - 1 + plus_days, milliseconds=ms)
        times.append(DT(to_ns(d)))
    for section in ("attitude", "rates"):
        path = f"{base}/{section}"
        for ax in ("pitch", "roll", "yaw"):
            errs, vals, attrs = [], [], None
            for k in range(n_att):
                r = resolved[("led", f"attitude_point[{k}]")]
                errs.append(bool(dec_int(r[f"{section}.{ax}_error"])))
                f = lay.by_name[f"{section}.{ax}"]
                vals.append(decode_field(f, r[f["key"]]))
                attrs = f.get("attrs")
            L.var(path, f"{ax}_error", ["points"], errs, {})
            L.var(path, ax, ["points"], vals, attrs)
        L.var(path, "time", ["points"], times, {}, role="coord")


def radiometric_data(L, r):
    base = "/metadata/radiometric_data"
    lay = synth.layout("led.radiometric_data")
    generic(
        L,
        base,
        "led.radiometric_data",
        r,
        ignored_top=("preamble", "radiometric_data_records_sequence_number", "number_of_radiometric_fields", "distortion_matrix"),
    )
    path = f"{base}/distortion_matrix"
    for section, p in (("transmission", "dt"), ("reception", "dr")):
        vals = [[decode_field(lay.by_name[f"distortion_matrix.{section}.{p}{i}{j}"], r[f"distortion_matrix.{section}.{p}{i}{j}"]) for j in (1, 2)] for i in (1, 2)]
        L.var(path, section, ["i", "j"], vals, {})
    L.var(path, "i", ["i"], ["horizontal", "vertical"], {"long_name": "reception polarization"})
    L.var(path, "j", ["j"], ["horizontal", "vertical"], {"long_name": "transmission polarization"})
    meta = next(m for m in lay.meta if m["name"] == "distortion_matrix")
    for k, v in meta["attrs"].items():
        L.attr(path, k, v)


def data_quality_summary(L, resolved, n_chan):
    base = "/metadata/data_quality_summary"
    generic(L, base, "led.dq_head", resolved[("led", "data_quality_summary")], ignored_top=("preamble", "record_number"))
    generic(L, base, "led.dq_abs_geometric", resolved[("led", "dq_abs_geometric")])
    for group, inst, lay_name in (
        ("relative_radiometric_quality", "dq_rel_radiometric", "led.dq_calibration_uncertainty"),
        ("relative_geometric_quality", "dq_rel_geometric", "led.dq_misregistration_error"),
    ):
        lay = synth.layout(lay_name)
        for f in lay.fields:
            vals = [decode_field(f, resolved[("led", f"{inst}[{j}]")][f["key"]]) for j in range(n_chan)]
            L.var(f"{base}/{group}", f["name"], ["channel"], vals, f.get("attrs"))


def transformations(L, r):
    base = "/metadata/transformations"
    lay = synth.layout("led.facility_related_data_5")
    generic(
        L,
        base,
        "led.facility_related_data_5",
        r,
        ignored_top=("preamble", "record_sequence_number", "system_reserve", "number_of_loss_lines", "conversion_from_pixel_to_geographic", "conversion_from_geographic_to_pixel", "conversion_from_map_projection_to_pixel"),
        leaf_renames={"prf_switching_flag": "prf_switching"},
        transforms={"prf_switching_flag": bool},
    )
    for leaf in ("level1.0", "others"):
        f = lay.by_name[f"number_of_loss_lines.{leaf}"]
        L.attr(f"{base}/number_of_loss_lines", leaf, decode_field(f, r[f["key"]]))
    specs = (
        ("conversion_from_map_projection_to_pixel", "projected_to_image", "mid_precision_coeffs", (("a", 10), ("b", 10)), ()),
        ("conversion_from_pixel_to_geographic", "image_to_geographic", "high_precision_coeffs", (("a", 25), ("b", 25)), ("origin_pixel", "origin_line")),
        ("conversion_from_geographic_to_pixel", "geographic_to_image", "high_precision_coeffs", (("c", 25), ("d", 25)), ("origin_latitude", "origin_longitude")),
    )
    for src, dst, dim, arrays, scalars in specs:
        path = f"{base}/{dst}"
        for nm, n in arrays:
            vals = [decode_field(lay.by_name[f"{src}.{nm}[{k}]"], r[f"{src}.{nm}[{k}]"]) for k in range(n)]
            L.var(path, nm, [dim], vals, {})
        for nm in scalars:
            L.var(path, nm, (), decode_field(lay.by_name[f"{src}.{nm}"], r[f"{src}.{nm}"]), {})
        meta = next(m for m in lay.meta if m["name"] == src)
        for k, v in meta["attrs"].items():
            L.attr(path, k, v)


def leader(L, spec, resolved, attitude_plus_days=0):
    ld = spec["leader"]
    dataset_summary(L, resolved[("led", "dataset_summary")])
    if ld["n_mp"] >= 1:
        map_projection(L, resolved[("led", "map_projection")])
    year = platform_position(L, resolved[("led", "platform_position")])
    attitude(L, resolved, year, ld["n_att"], plus_days=attitude_plus_days)
    radiometric_data(L, resolved[("led", "radiometric_data")])
    data_quality_summary(L, resolved, ld["n_chan"])
    transformations(L, resolved[("led", "facility_related_data_5")])


# ---------------------------------------------------------------------------
# volume directory -> root attributes

VOL_RENAMES = {
    "superstructure_format_control_document_id": "control_document_id",
    "superstructure_format_control_document_revision_level": "control_document_revision_level",
    "superstructure_record_format_revision_level": "record_format_revision_level",
    "software_release_and_revision_level": "software_version",
    "logical_volume_creation_datetime": "creation_datetime",
    "logical_volume_generation_country": "creation_country",
    "logical_volume_generating_agency": "creation_agency",
    "logical_volume_generating_facility": "creation_facility",
    "location_and_datetime_of_product_creation": "product_creation",
}
VOL_KEPT = (
    "superstructure_format_control_document_id",
    "superstructure_format_control_document_revision_level",
    "superstructure_record_format_revision_level",
    "software_release_and_revision_level",
    "physical_volume_id",
    "logical_volume_id",
    "volume_set_id",
    "logical_volume_creation_datetime",
    "logical_volume_generation_country",
    "logical_volume_generating_agency",
    "logical_volume_generating_facility",
)
TEXT_KEPT = ("product_id", "location_and_datetime_of_product_creation", "scene_id", "scene_location_id")


def volume(L, resolved):
    vd = resolved[("vol", "volume_descriptor")]
    for name in VOL_KEPT:
        v = text(vd[name]).strip()
        if name == "logical_volume_creation_datetime":
            v = iso_compact(v)
        L.attr("/", VOL_RENAMES.get(name, name), v)
    tr = resolved[("vol", "text_record")]
    for name in TEXT_KEPT:
        L.attr("/", VOL_RENAMES.get(name, name), text(tr[name]).strip())
    L.attr("/", "reference_document", REFERENCE_DOCUMENT)


# ---------------------------------------------------------------------------
# images

LINE_IGNORED = {
    "preamble",
    "actual_count_of_left_fill_pixels",
    "actual_count_of_right_fill_pixels",
    "actual_count_of_data_pixels",
    "alos2_frame_number",
    "palsar_auxiliary_data",
}
HEADER_ATTRS = {
    "sar_related_data_in_the_record.interleaving_id": ("interleaving_id", "text"),
    "prefix_suffix_data_locators.maximum_data_range_of_pixel": ("valid_range", "range"),
    "prefix_suffix_data_locators.number_of_burst_data": ("number_of_burst_data", "int"),
    "prefix_suffix_data_locators.number_of_lines_per_burst": ("number_of_lines_per_burst", "int"),
    "scansar_burst_data_information.number_of_overlap_lines_with_adjacent_bursts": ("number_of_overlap_lines_with_adjacent_bursts", "int"),
}


def image(L, spec, resolved, i, with_data=True):
    im = spec["images"][i]
    info = synth.TYPE_INFO[im["type"]]
    scan = im.get("scan")
    name = im["pol"] if not scan else f"{im['pol']}_scan{scan[1]}"
    path = f"/imagery/{name}"
    lay = synth.layout(info["rec"])
    nl = im["lines"]
    recs = [resolved[(f"img{i}", f"line[{k}]")] for k in range(nl)]
    for f in lay.fields:
        nm = f["name"]
        top = nm.split(".")[0]
        if top in LINE_IGNORED or synth.is_spare(nm):
            continue
        leaf = nm.replace(".", "_")
        if f["kind"] == "ydms":
            vals = [DT(ydms_to_ns(r[f["key"]])) for r in recs]
            L.var(path, leaf, ["rows"], vals, {}, role="coord")
            continue
        if f["kind"] == "us":
            vals = []
            for r in recs:
                day = ydms_to_ns(r["sensor_acquisition_date"]) // (86400 * 10**9) * (86400 * 10**9)
                vals.append(DT(day + int.from_bytes(r[f["key"]], "big") * 1000))
            L.var(path, leaf, ["rows"], vals, {}, role="coord")
            continue
        vals = [decode_field(f, r[f["key"]]) for r in recs]
        if nm in synth.LINE_CONSTANTS:
            L.attr(path, leaf, vals[0])
            continue
        if nm == "sar_image_data_line_number":
            leaf = "rows"
        L.var(path, leaf, ["rows"], vals, f.get("attrs") or {}, role="coord", scaled="factor" in f)
    hdr = resolved[(f"img{i}", "file_descriptor")]
    hl = synth.layout("img.file_descriptor")
    for key, (leaf, how) in HEADER_ATTRS.items():
        raw = text(hdr[key]).strip()
        if how == "text":
            # C03 says "present exactly when non-blank"; C20 says blank text -> "": both accepted
            if raw == "":
                L[f"{path}@{leaf}?blank"] = True
            else:
                L.attr(path, leaf, raw)
        elif raw != "":
            v = int(raw)
            L.attr(path, leaf, [0, v] if how == "range" else v)
    if with_data:
        raw = synth.samples_bytes(im, i)
        L[f"{path}:data"] = {
            "role": "var",
            "dims": ["rows", "columns"],
            "dtype": "uint16" if im["type"] == "IU2" else "complex64",
            "shape": [nl, im["pixels"]],
            "attrs": {},
            "raw": b"".join(raw).hex(),
            "type": im["type"],
        }
    L.group(path)
    return name


# ---------------------------------------------------------------------------
# summary

SECTION_NAMES = {
    "odi": "ordering_information",
    "scs": "scene_specification",
    "pds": "product_specification",
    "img": "image_information",
    "pdi": "product_information",
    "ach": "autocheck",
    "rad": "result_information",
    "lbi": "label_information",
}
OBSERVATION_MODES = {
    "SBS": "spotlight mode",
    "UBS": "ultra-fine mode single polarization",
    "UBD": "ultra-fine mode dual polarization",
    "HBS": "high-sensitive mode single polarization",
    "HBD": "high-sensitive mode dual polarization",
    "HBQ": "high-sensitive mode full (quad.) polarimetry",
    "FBS": "fine mode single polarization",
    "FBD": "fine mode dual polarization",
    "FBQ": "fine mode full (quad.) polarimetry",
    "WBS": "ScanSAR nominal 14MHz mode single polarization",
    "WBD": "ScanSAR nominal 14MHz mode dual polarization",
    "WWS": "ScanSAR nominal 28MHz mode single polarization",
    "WWD": "ScanSAR nominal 28MHz mode dual polarization",
    "VBS": "ScanSAR wide mode single polarization",
    "VBD": "ScanSAR wide mode dual polarization",
}
OBSERVATION_DIRECTIONS = {"L": "left looking", "R": "right looking"}
PROCESSING_LEVELS = {"1.0": "level 1.0", "1.1": "level 1.1", "1.5": "level 1.5", "3.1": "level 3.1"}
PROCESSING_OPTIONS = {"G": "geo-code", "R": "geo-reference", "_": "not specified"}
MAP_PROJECTIONS = {"U": "UTM", "P": "PS", "M": "MER", "L": "LCC", "_": "not specified"}
ORBIT_DIRECTIONS = {"A": "ascending", "D": "descending"}
PROCESSING_METHODS = {"F": "full aperture_method", "B": "SPECAN method"}
RESAMPLING = {"NN": "nearest-neighbor", "BL": "bilinear", "CC": "cubic convolution"}
FACILITIES = {"SCMO": "spacecraft control mission operation system", "EICS": "earth intelligence collection and sharing system"}


def decode_product_id(pid):
    """table-driven, shares no code with the library's regexes; None if outside the language"""
    if len(pid) != 10:
        return None
    mode, direction, level, opt, proj, orbit = pid[0:3], pid[3], pid[4:7], pid[7], pid[8], pid[9]
    try:
        return {
            "observation_mode": OBSERVATION_MODES[mode],
            "observation_direction": OBSERVATION_DIRECTIONS[direction],
            "processing_level": PROCESSING_LEVELS[level],
            "processing_option": PROCESSING_OPTIONS[opt],
            "map_projection": MAP_PROJECTIONS[proj],
            "orbit_direction": ORBIT_DIRECTIONS[orbit],
        }
    except KeyError:
        return None


def decode_scene_id(sid):
    """-> dict or None.  <5 of [A-Z0-9]><5 digits><4 digits>-<yymmdd valid date>"""
    if len(sid) != 21 or sid[14] != "-":
        return None
    mission, orbit, frame, date = sid[0:5], sid[5:10], sid[10:14], sid[15:21]
    upper_digits = "ABCDEFGHIJKLMNOPQRSTUVWXYZ0123456789"
    if not all(c in upper_digits for c in mission):
        return None
    if not all(c in "0123456789" for c in orbit + frame + date):
        return None
    yy, mm, dd = int(date[0:2]), int(date[2:4]), int(date[4:6])
    year = 2000 + yy if yy < 69 else 1900 + yy
    try:
        d = dt.date(year, mm, dd)
    except ValueError:
        return None
    return {"mission_name": mission, "orbit_accumulation": orbit, "scene_frame": frame, "date": d}


def summary_entries(lines):
    """[(section lower, key, value)] - independent 6-line recogniser; None for malformed lines"""
    out = []
    for line in lines:
        out.append(parse_summary_line(line))
    return out


def parse_summary_line(line):
    # Sec_Key="value": 3 ASCII letters, '_', key without '="' up to the first '="', value up to a final '"'
    if len(line) < 7 or line[3] != "_" or not line[:3].isascii() or not line[:3].isalpha():
        return None
    i = line.find('="', 4)
    if i < 0 or not line.endswith('"') or len(line) < i + 3:
        return None
    key, value = line[4:i], line[i + 2 : -1]
    if '"' in value:
        # the library's value group is non-greedy under fullmatch: any content is allowed
        pass
    return (line[:3].lower(), key, value)


def summary(L, entries):
    """expected /summary leaves from well-formed entries [(sec, key, value)]"""
    secs = {}
    for sec, key, value in entries:
        secs.setdefault(sec, {})[key] = value
    for sec, items in secs.items():
        path = f"/summary/{SECTION_NAMES[sec]}"
        L.group(path)
        if sec in ("odi", "rad"):
            for k, v in items.items():
                L.attr(path, k, v)
        elif sec == "scs":
            for k, v in items.items():
                if k == "SceneID":
                    d = decode_scene_id(v)
                    L.attr(path, "mission_name", d["mission_name"])
                    L.attr(path, "orbit_accumulation", int(d["orbit_accumulation"]))
                    L.attr(path, "scene_frame", int(d["scene_frame"]))
                    L.attr(path, "date", d["date"].isoformat())
                elif k == "SceneShift":
                    L.attr(path, k, int(v))
                else:
                    L.attr(path, k, v)
        elif sec == "pds":
            for k, v in items.items():
                if k == "ProductID":
                    for kk, vv in decode_product_id(v).items():
                        L.attr(path, kk, vv)
                elif k == "ResamplingMethod":
                    L.attr(path, k, RESAMPLING[v])
                elif k == "UTM_ZoneNo":
                    L.attr(path, k, int(v))
                elif k in ("MapDirection", "OrbitDataPrecision", "AttitudeDataPrecision"):
                    L.attr(path, k, v)
                else:
                    L.attr(path, k, float(v))
        elif sec == "img":
            for k, v in items.items():
                if "DateTime" in k:
                    date, time = v.split()
                    L.attr(path, k, f"{date[:4]}-{date[4:6]}-{date[6:]}T{time}")
                else:
                    L.attr(path, k, float(v))
        elif sec == "pdi":
            files = {k: v for k, v in items.items() if "ProductFileName" in k and not k.startswith("Cnt")}
            shapes = {k: v for k, v in items.items() if k.startswith(("NoOfPixels", "NoOfLines"))}
            for k, v in items.items():
                if "ProductFileName" in k or k in shapes:
                    continue
                if k == "BitPixel":
                    L.attr(path, k, int(v))
                elif k == "ProductDataSize":
                    L.attr(path, k, float(v))
                else:
                    L.attr(path, k, v)
            if files:
                ordered = [files[k] for k in sorted(files)]
                fp = f"{path}/data_files"
                L.attr(fp, "volume_directory", ordered[0])
                L.attr(fp, "sar_leader", ordered[1])
                L.attr(fp, "sar_imagery", ordered[2:-1])
                L.attr(fp, "sar_trailer", ordered[-1])
            if shapes:
                sp = f"{path}/shapes"
                idx = {}
                for k, v in shapes.items():
                    nm, i = k.split("_")
                    idx.setdefault(i, {})[nm] = int(v)
                for i, d in idx.items():
                    L.attr(sp, i, (d["NoOfPixels"], d["NoOfLines"]))
        elif sec == "ach":
            for k, v in items.items():
                L.attr(path, k, v or "N/A")
        elif sec == "lbi":
            for k, v in items.items():
                if k == "ObservationDate":
                    L.attr(path, k, f"{v[:4]}-{v[4:6]}-{v[6:]}")
                elif k == "ProcessFacility":
                    L.attr(path, k, FACILITIES[v])
                else:
                    L.attr(path, k, v)
    L.group("/summary")


# ---------------------------------------------------------------------------
# whole tree


def expected(spec, resolved, with_summary=True, attitude_plus_days=0):
    L = Leaves()
    volume(L, resolved)
    leader(L, spec, resolved, attitude_plus_days=attitude_plus_days)
    names = [image(L, spec, resolved, i) for i in range(len(spec["images"]))]
    L["/imagery#order"] = names
    L.group("/imagery")
    if with_summary:
        lines = spec["summary"]["lines"] if spec["summary"].get("lines") is not None else synth.summary_lines(spec)
        summary(L, [parse_summary_line(x) for x in lines])
    return L


# ---------------------------------------------------------------------------
# the same leaf format read off a real tree


def semantic(tree, load_data=True):
    out = {}
    for node in tree.subtree:
        p = node.path
        out[f"{p}#group"] = True
        if node.children:
            out[f"{p}#children"] = set(node.children)
        for k, v in node.attrs.items():
            out[f"{p}@{k}"] = _orig_canon(v)
        ds = node.to_dataset(inherit=False)
        for name, var in ds.variables.items():
            role = "coord" if name in ds.coords else "var"
            if p.startswith("/imagery/") and name == "data":
                entry = {"role": role, "dims": list(var.dims), "dtype": str(var.dtype), "shape": list(var.shape), "attrs": {k: _orig_canon(v) for k, v in var.attrs.items()}}
                if load_data:
                    vals = np.asarray(var.values)
                    entry["raw"] = vals.astype(vals.dtype.newbyteorder(">")).tobytes().hex()
                    entry["loaded_dtype"] = str(vals.dtype)
                out[f"{p}:{name}"] = entry
                continue
            vals = np.asarray(var.values)
            kind = vals.dtype.kind
            if kind == "M":
                flat = [["datetime", int(x)] if not np.isnat(x) else ["datetime", "NaT"] for x in vals.astype("datetime64[ns]").reshape(-1)]
                flat = [["datetime", int(x.astype("int64"))] if not np.isnat(x) else ["datetime", "NaT"] for x in vals.astype("datetime64[ns]").reshape(-1)]
                dtype = str(vals.dtype)
            elif kind == "U":
                flat = [["str", str(x)] for x in vals.reshape(-1)]
                dtype = "U"
            elif kind == "O":
                flat = [["opaque", repr(x)[:80]] for x in vals.reshape(-1)]
                dtype = "object"
            else:
                flat = [_orig_canon(x) for x in vals.reshape(-1).tolist()]
                dtype = str(vals.dtype)
            out[f"{p}:{name}"] = {"role": role, "dims": list(var.dims), "dtype": dtype, "shape": list(vals.shape), "attrs": {k: _orig_canon(v) for k, v in var.attrs.items()}, "values": flat}
    if "/imagery" in [n.path for n in tree.subtree]:
        out["/imagery#order"] = list(tree["imagery"].children)
    return out


def _num_eq(hx, hy, ulps=0):
    """hex-float strings (or 'nan'): numerically equal (-0.0 == 0.0, nan ~ nan), optionally within ulps"""
    if hx == hy:
        return True
    if "nan" in (hx, hy):
        return False
    x, y = float.fromhex(hx), float.fromhex(hy)
    if x == y:
        return True
    if math.isinf(x) or math.isinf(y) or not ulps:
        return False
    return abs(x - y) <= ulps * math.ulp(max(abs(x), abs(y)))


_ISO = re.compile(r"\d{4}-\d{2}-\d{2}([T ]\d{2}:\d{2}(:\d{2}([.,]\d{1,9})?)?)?")


def _same_iso_instant(a, b):
    """ISO 8601 texts are compared as instants: '2014-01-01T00:00:00' and '2014-01-01T00:00:00.000000'
    are the same date-time (the properties fix the instant and 'ISO 8601', not one spelling of it)"""
    if not (isinstance(a, str) and isinstance(b, str) and _ISO.fullmatch(a) and _ISO.fullmatch(b)):
        return False
    try:
        return dt.datetime.fromisoformat(a.replace(",", ".")) == dt.datetime.fromisoformat(b.replace(",", "."))
    except ValueError:
        return False


def _float_close(a, b, ulps=0):
    """value equality of canonical leaves: metadata numbers compare numerically (the properties say
    'equals the number written'; only pixel data is compared bit for bit)"""
    if a == b:
        return True
    if not (isinstance(a, list) and isinstance(b, list)) or a[:1] != b[:1]:
        return False
    if a[0] == "float":
        return _num_eq(a[1], b[1], ulps)
    if a[0] == "str":
        return _same_iso_instant(a[1], b[1])
    if a[0] == "complex":
        return _num_eq(a[1], b[1], ulps) and _num_eq(a[2], b[2], ulps)
    if a[0] in ("list", "tuple") and len(a[1]) == len(b[1]):
        return all(_float_close(x, y, ulps) for x, y in zip(a[1], b[1]))
    return False


def compare(expected_leaves, actual, ignore_prefixes=(), only_prefixes=None):
    """-> (mismatches [(leaf, expected, actual)], unverified leaves present only in the tree)"""
    bad, unverified = [], []

    def relevant(k):
        if any(k.startswith(p) for p in ignore_prefixes):
            return False
        return only_prefixes is None or any(k.startswith(p) for p in only_prefixes)

    for k, e in expected_leaves.items():
        if not relevant(k):
            continue
        if k.endswith("?blank"):
            leaf = k[: -len("?blank")]
            a = actual.get(leaf)
            if a is not None and a != ["str", ""]:
                bad.append((leaf, "absent or ''", a))
            continue
        a = actual.get(k)
        if a is None:
            bad.append((k, e, "missing"))
            continue
        if k.endswith("#children"):
            if set(e) != set(a):
                bad.append((k, sorted(e), sorted(a)))
            continue
        if isinstance(e, dict) and isinstance(a, dict):
            for part in ("role", "dims", "dtype", "shape", "attrs"):
                if e[part] != a.get(part):
                    bad.append((f"{k}#{part}", e[part], a.get(part)))
            if "raw" in e:
                if "raw" in a and e["raw"] != a["raw"]:
                    bad.append((f"{k}#values", e["raw"][:64], a["raw"][:64]))
                continue
            ev, av = e["values"], a.get("values", [])
            if len(ev) != len(av):
                bad.append((f"{k}#len", len(ev), len(av)))
                continue
            alt = e.get("alt_values") or []
            for i, (x, y) in enumerate(zip(ev, av)):
                if x != y and not _float_close(x, y, 4 if e.get("scaled") else 0) and not (i < len(alt) and _float_close(alt[i], y, 4)) and not (e.get("loose") and _float_close(x, y, 2**48)):
                    bad.append((f"{k}[{i}]", x, y))
            continue
        if e != a and not _float_close(e, a):
            bad.append((k, e, a))
    blank_leaves = {k[: -len("?blank")] for k in expected_leaves if k.endswith("?blank")}
    for k in actual:
        if relevant(k) and k not in expected_leaves and k not in blank_leaves:
            unverified.append(k)
    return bad, unverified
