"""Finite value alphabets per field kind (raw bytes of exactly the field width),
ordered simplest-first.  VERIF_SEED only picks the representative 'arbitrary'
values; the structure of the alphabet does not depend on it."""
import random


def _fit(cands, w):
    out, seen = [], set()
    for label, s, just in cands:
        if len(s) > w or s == "":
            continue
        b = (s.rjust(w) if just == "r" else s.ljust(w) if just == "l" else s.center(w)).encode("ascii")
        if b not in seen:
            seen.add(b)
            out.append((label, b))
    return out


def floats(w, seed=0, name=""):
    rnd = random.Random(f"{seed}:{name}:F")
    mid = rnd.uniform(-9999, 9999)
    prec = max(0, min(7, w - 8))
    cands = [
        ("zero", "0", "r"),
        ("negzero", "-0.0", "r"),
        ("1.5", "1.5", "r"),
        ("plus", "+1.5", "r"),
        ("minus", "-1.5", "r"),
        ("left", "2.25", "l"),
        ("fixed", "123.456", "r"),
        ("centre", "7.75", "c"),
        ("efull", f"{-1234.5678e10:.{prec}E}", "r"),
        ("elower", "2.5e3", "r"),
        ("huge", f"{9.9999999e99:.{prec}E}", "r"),
        ("tiny", "1.0E-99", "r"),
        ("mid", f"{mid:.{prec}E}", "r"),
        ("intlike", "42", "r"),
        ("enosign", "1.5E03", "r"),
        ("leaddot", ".5", "r"),
        ("traildot", "5.", "r"),
        ("lead0", "0001.5", "r"),
        ("negdotexp", "-.25E-1", "r"),
        ("eint", "1E5", "r"),
        ("tenth", "0.1", "r"),
        ("third", "0.3333333", "l"),
        ("nines", "99999.99", "r"),
        ("digits17", "0.12345678901234567", "r"),
        ("bigint", "123456789012", "r"),
        ("subnormal", "4.9E-324", "r"),
        ("negexp0", "-7.0E+00", "r"),
        ("exp1digit", "3.5E+7", "r"),
    ]
    return _fit(cands, w)


def float_seconds(w, seed=0):
    rnd = random.Random(f"{seed}:sec")
    cands = [("zero", "0", "r"), ("one", "1.0", "r"), ("last", "86399.999", "r"), ("mid", f"{rnd.uniform(0, 86399):.6f}", "r"), ("e", "4.32E+04", "r")]
    return _fit(cands, w)


def ints(w, seed=0, name="", signed=True):
    rnd = random.Random(f"{seed}:{name}:I")
    cands = [
        ("zero", "0", "r"),
        ("one", "1", "r"),
        ("minus1", "-1", "r") if signed else ("two", "2", "r"),
        ("leading0", ("00000007")[-min(w, 3) :], "r"),
        ("plus", "+45" if w >= 3 else "+4", "r"),
        ("plus-left", "+6", "l"),
        ("neg-padded", "-07" if signed else "08", "r"),
        ("left", "5", "l"),
        ("full9", "9" * w, "r"),
        ("mid", str(rnd.randrange(10 ** max(w - 1, 1))), "r"),
        ("pow53", "9007199254740993", "r"),
        ("neg9", "-" + "9" * (w - 1) if signed and w > 1 else "9", "r"),
        ("zeros", "0" * w, "r"),
        ("ten", "10", "r"),
        ("centre", "3", "c"),
    ]
    return _fit(cands, w)


def texts(w, seed=0, name=""):
    rnd = random.Random(f"{seed}:{name}:A")
    word = "".join(rnd.choice("ABCDEFGHJKLMNPQRSTUVWXYZ0123456789") for _ in range(w))
    cands = [
        ("one", "X", "l"),
        ("full", word, "l"),
        ("inner", "a b c d e f g h"[: max(w - 1, 1)].rstrip() if w >= 3 else "ab"[:w], "l"),
        ("right", "R", "r"),
        ("punct", "p.,;:-_/()"[:w], "l"),
        ("quotes", "q\"'="[:w], "l"),
        ("lower", "mixedCase"[:w], "l"),
        ("E", "E", "l"),
        ("A", "A", "l"),
        ("EB", "EB"[:w], "l"),
        ("e", "e", "l"),
        # texts that look like values of another type: a free-text field must surface them unchanged
        ("datetime16", "2014082913370512", "l"),
        ("datetime17", "20140829133705123", "l"),
        ("date8", "20140829", "l"),
        ("iso", "2014-08-29T13:37", "l"),
        ("floatlike", "1.5E+03", "l"),
        ("intlike", "-42", "r"),
        ("nan", "nan", "l"),
        ("inf", "-inf", "l"),
        ("none", "None", "l"),
        ("true", "true", "l"),
        ("ones", "1" * w, "l"),
        ("zeros", "0" * w, "l"),
        ("digits", "1234567890123456789012345678901234567890"[:w], "l"),
        ("process", "PROCESS:JAPAN-JAXA-ALOS2-EICS  20191011 144315", "l"),
        ("process-short", "PROCESS:JAXA  20191011 144315", "l"),
        ("orbit", "ORBIT:ALOS2 A 14415", "l"),
    ]
    return _fit(cands, w)


def binary_ints(w, seed=0, name=""):
    rnd = random.Random(f"{seed}:{name}:B")
    top = 256**w - 1
    vals = [("zero", 0), ("one", 1), ("mid", rnd.randrange(2, max(top, 3))), ("max", top), ("highbit", 256**w // 2)]
    out, seen = [], set()
    for label, v in vals:
        b = int(v).to_bytes(w, "big")
        if b not in seen:
            seen.add(b)
            out.append((label, b))
    return out


def for_field(f, seed=0):
    """alphabet for a layout field (value fields); enums -> every code, flags -> 0,1,2"""
    w, kind = f["w"], f["kind"]
    if "enum" in f:
        out = []
        for name, code in f["enum"].items():
            if kind == "B":
                out.append((f"code:{name}", int(code).to_bytes(w, "big")))
            elif kind == "I":
                out.append((f"code:{name}", str(code).rjust(w).encode()))
            else:
                out.append((f"code:{name}", str(code).ljust(w).encode()))
        return out
    if f.get("flag"):
        return [(f"flag{v}", int(v).to_bytes(w, "big")) for v in (0, 1, 2)]
    if kind == "F":
        return floats(w, seed, f["name"])
    if kind == "I":
        return ints(w, seed, f["name"])
    if kind == "A":
        return texts(w, seed, f["name"])
    if kind == "C":
        h = w // 2
        fl = floats(h, seed, f["name"])
        pick = [fl[i] for i in (0, 1, 2, len(fl) - 2, len(fl) - 1) if i < len(fl)]
        out = []
        for i, (la, a) in enumerate(pick):
            lb, b = pick[(i + 2) % len(pick)]
            out.append((f"{la}+{lb}j", a + b))
        return out
    if kind == "B":
        return binary_ints(w, seed, f["name"])
    return []


def spare_contents(f):
    """contents a spare / blank / reserved area may hold, by character class of the field"""
    w, kind = f["w"], f["kind"]
    if kind == "A":
        pats = ["~", "A", "0123456789", "\"'=", "x y"]
        return [(f"text{i}", (p * w)[:w].encode()) for i, p in enumerate(pats)]
    if kind in "IF":
        cands = [("zero", "0", "r"), ("num", "-1.5E+03" if kind == "F" else "-15", "r"), ("digits", "9" * w, "r"), ("left", "7", "l")]
        if kind == "F":  # numbers outside the range of a double are still numbers
            cands += [("huge", "3.1415927E+310", "r"), ("huge-neg", "-9E999", "r"), ("tiny", "1E-400", "r")]
        return _fit(cands, w)
    if kind in ("X", "B"):
        return [("nul", b"\x00" * w), ("ff", b"\xff" * w), ("space", b" " * w), ("counter", bytes((i * 7 + 1) % 256 for i in range(w)))]
    return []
