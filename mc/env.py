"""Environment ownership: which tree is under test, private cache dir, determinism."""
import atexit
import os
import pathlib
import shutil
import sys
import tempfile

VERIF = pathlib.Path(__file__).resolve().parent.parent
REPO = pathlib.Path(os.environ.get("VERIF_REPO", "/repo")).resolve()
GUARD = "CEOS_ALOS2_VERIF"

_scratch = None
_cache_home = None


def scratch_root():
    """Run-scoped scratch directory (removed at exit of the creating process)."""
    global _scratch
    if _scratch is None:
        base = os.environ.get("VERIF_SCRATCH_BASE") or tempfile.gettempdir()
        _scratch = pathlib.Path(tempfile.mkdtemp(prefix="ceosmc-", dir=base))
        pid = os.getpid()

        def _cleanup(path=_scratch, pid=pid):
            if os.getpid() == pid:
                shutil.rmtree(path, ignore_errors=True)

        atexit.register(_cleanup)
    return _scratch


def private_cache_home(tag=None):
    """Point XDG_CACHE_HOME at a private directory.  Must run before the first
    import of ceos_alos2 in this process (the cache root is computed at import)."""
    global _cache_home
    if "ceos_alos2" in sys.modules and _cache_home is None:
        raise RuntimeError("ceos_alos2 imported before the cache home was made private")
    if _cache_home is None:
        tag = tag or f"p{os.getpid()}"
        _cache_home = scratch_root() / f"xdg-{tag}"
        _cache_home.mkdir(parents=True, exist_ok=True)
        os.environ["XDG_CACHE_HOME"] = str(_cache_home)
    return _cache_home


def cache_root():
    """User cache dir of the library for this process (xarray-ceos-alos2 subdir)."""
    return private_cache_home() / "xarray-ceos-alos2"


def wipe_cache():
    root = cache_root()
    if root.exists():
        shutil.rmtree(root)


def import_lib():
    """Import ceos_alos2 from the tree under test and check it is that tree."""
    private_cache_home()
    os.environ.setdefault(GUARD, "1")
    if "ceos_alos2" not in sys.modules:
        if str(REPO) != "/repo":
            sys.path.insert(0, str(REPO))
    import ceos_alos2

    where = pathlib.Path(ceos_alos2.__file__).resolve()
    if REPO not in where.parents:
        raise RuntimeError(f"ceos_alos2 imported from {where}, expected under {REPO}")
    import ceos_alos2.sar_image.caching.path as cpath

    if pathlib.Path(cpath.cache_root) != cache_root():
        raise RuntimeError(f"cache root {cpath.cache_root} is not private ({cache_root()})")
    return ceos_alos2


def seed():
    try:
        return int(os.environ.get("VERIF_SEED", "0"))
    except ValueError:
        return 0


TZ_RULES = ("CET-1CEST,M3.5.0,M10.5.0/3", "EST5EDT,M3.2.0,M11.1.0", "<-03>3<-02>,M10.3.0/0,M2.3.0/0", "AEST-10AEDT,M10.1.0,M4.1.0/3")
# (month, day) of 2021 on which one of these zones skips or repeats an hour
TZ_DAYS = ((3, 28), (3, 14), (10, 31), (11, 7), (10, 17), (10, 3), (2, 21), (4, 4))


class timezone:
    """run a block under a local time zone given as a POSIX TZ rule (no tzdata needed); the decoded tree must not
    depend on it: every time in the files is an absolute (UTC) instant"""

    def __init__(self, rule):
        self.rule = rule

    def __enter__(self):
        import time

        self.old = os.environ.get("TZ")
        if self.rule:
            os.environ["TZ"] = self.rule
            time.tzset()

    def __exit__(self, *a):
        import time

        if self.rule:
            if self.old is None:
                os.environ.pop("TZ", None)
            else:
                os.environ["TZ"] = self.old
            time.tzset()
