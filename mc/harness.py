"""Shared helpers for executing one case on the real code."""
import contextlib
import itertools
import os
import pathlib
import shutil

from mc import env, synth, vfs

FS_KINDS = ("mcfs", "local", "file", "memory")
_counter = itertools.count()


class Product:
    """A synthesized product placed on one filesystem kind."""

    def __init__(self, files, kind="mcfs", tag=None):
        self.files = files
        self.kind = kind
        self.tag = tag or f"p{os.getpid()}_{next(_counter)}"
        self.storage_options = {}
        if kind in ("mcfs", "mcfs-shared", "amcfs"):
            self.store = f"st_{self.tag}"
            vfs.put_product(self.store, "/prod", files)
            self.url = "mcfs://prod" if kind != "amcfs" else "amcfs://prod"
            self.storage_options = {"store": self.store}
            if kind == "mcfs-shared":  # open() hands out one shared, rewound file object per path (like memory://)
                self.storage_options["shared_handles"] = True
                self.kind = kind = "mcfs"
            if kind == "amcfs":  # an async fsspec implementation over the same store; every other handling is mcfs'
                self.kind = kind = "mcfs"
            self.dir = None
        elif kind in ("local", "file", "mclocal"):
            self.dir = env.scratch_root() / f"prod_{self.tag}"
            synth.write_local(self.dir, files)
            self.url = str(self.dir) if kind == "local" else self.dir.as_uri() if kind == "file" else f"mclocal://{self.dir}"
            if kind == "mclocal":  # the local filesystem with observable / schedulable reads
                self.kind = "local"
        elif kind.startswith("links-"):
            # a local product some of whose entries are symbolic links (images kept on another disk, annexed checkouts):
            # links-img = the IMG- files, links-all = every file, links-dir = the product directory itself
            self.real = env.scratch_root() / f"real_{self.tag}"
            self.dir = env.scratch_root() / f"prod_{self.tag}"
            synth.write_local(self.real, files)
            if kind == "links-dir":
                os.symlink(self.real, self.dir)
            else:
                self.dir.mkdir(parents=True)
                for name in files:
                    if kind == "links-all" or name.startswith("IMG-"):
                        os.symlink(self.real / name, self.dir / name)
                    else:
                        shutil.copyfile(self.real / name, self.dir / name)
            self.url = str(self.dir)
            self.kind = "local"
        elif kind == "memory":
            self.root = f"/mem_{self.tag}"
            synth.write_memory(self.root, files)
            self.url = f"memory://{self.root}"
            self.dir = None
        else:
            raise ValueError(kind)

    def options(self, **kw):
        opts = dict(kw)
        if self.storage_options:
            opts["storage_options"] = dict(self.storage_options)
        return opts

    def open(self, **kw):
        lib = env.import_lib()
        return lib.open_alos2(self.url, backend_options=self.options(**kw))

    def put(self, name, data, keep_mtime=False):
        """(over)write one file of the product; keep_mtime: like a timestamp-preserving copy (cp -p, rsync -t, tar)"""
        if self.kind == "mcfs":
            vfs.STORES[self.store][f"/prod/{name}"] = bytes(data)
            vfs.touch(self.store, f"/prod/{name}", keep_mtime=keep_mtime)
        elif self.kind in ("local", "file"):
            p = self.dir / name
            st = p.stat() if keep_mtime and p.exists() else None
            p.write_bytes(data)
            if st is not None:
                os.utime(p, ns=(st.st_atime_ns, st.st_mtime_ns))
        else:
            import fsspec

            fsspec.filesystem("memory").pipe(f"{self.root}/{name}", data)

    def remove(self, name):
        if self.kind == "mcfs":
            vfs.STORES[self.store].pop(f"/prod/{name}", None)
        elif self.kind in ("local", "file"):
            p = self.dir / name
            if p.exists():
                p.unlink()
        else:
            import fsspec

            fs = fsspec.filesystem("memory")
            if fs.exists(f"{self.root}/{name}"):
                fs.rm(f"{self.root}/{name}")

    def listing(self):
        if self.kind == "mcfs":
            return {k[len("/prod/") :]: v for k, v in vfs.STORES[self.store].items()}
        if self.kind in ("local", "file"):
            return {p.name: p.read_bytes() for p in sorted(self.dir.iterdir()) if p.is_file()}
        import fsspec

        fs = fsspec.filesystem("memory")
        return {p.rsplit("/", 1)[1]: fs.cat_file(p) for p in fs.ls(self.root, detail=False)}

    def mapper_root(self):
        """the string the library hashes for the user cache directory (fsspec mapper root)"""
        import fsspec

        return fsspec.get_mapper(self.url, **self.storage_options).root

    def close(self):
        if self.kind == "mcfs":
            vfs.drop_store(self.store)
        elif self.kind in ("local", "file"):
            if self.dir.is_symlink():
                self.dir.unlink()
            shutil.rmtree(self.dir, ignore_errors=True)
            if getattr(self, "real", None) is not None:
                shutil.rmtree(self.real, ignore_errors=True)
        else:
            import fsspec

            fs = fsspec.filesystem("memory")
            try:
                fs.rm(self.root, recursive=True)
            except FileNotFoundError:
                pass

    def __enter__(self):
        return self

    def __exit__(self, *a):
        self.close()


def img_events(log, name):
    return [e for e in log if e[1].endswith("/" + name)]


@contextlib.contextmanager
def traced():
    vfs.reset_log()
    yield vfs.LOG


IMAGE_NAMES = [(pol, scan) for scan in (None, "F1", "F2", "F3", "F4", "F5") for pol in ("HH", "HV", "VH", "VV")]


def group_name(pol, scan):
    return pol if not scan else f"{pol}_scan{scan[1]}"


def mem_mapper(files):
    """a real fsspec mapper (memory filesystem; what ``io.open`` hands to the library's per-file open functions) holding exactly
    the given files; one directory per process, rewritten on every call (the mapper is meant to be used at once)"""
    import fsspec

    root = f"/seam_{os.getpid()}"
    fs = fsspec.filesystem("memory")
    if fs.exists(root):
        fs.rm(root, recursive=True)
    for k, v in files.items():
        fs.pipe(f"{root}/{k}", v)
    return fsspec.get_mapper(f"memory://{root}")

