"""Runner, worker pool, evidence, replay files and known findings (DESIGN §5)."""
import argparse
import collections
import hashlib
import importlib
import json
import multiprocessing
import os
import pathlib
import sys
import time
import traceback

from mc import env

VERIF = env.VERIF
# the registered commands never set these; the mutation tooling redirects them so that runs against a
# scratch copy (VERIF_REPO) do not overwrite the evidence of the real tree
EVIDENCE_DIR = pathlib.Path(os.environ.get("VERIF_EVIDENCE_DIR") or VERIF / "evidence")
REPLAY_DIR = pathlib.Path(os.environ.get("VERIF_REPLAY_DIR") or VERIF / "replays")
KNOWN = VERIF / "known_findings.json"
MAX_REPORTED = 12


class HarnessError(Exception):
    pass


def jkey(obj):
    return json.dumps(obj, sort_keys=True, default=repr, ensure_ascii=False)


class Result:
    """What one run of a check covered and found."""

    def __init__(self, pid, level):
        self.pid = pid
        self.level = level
        self.evaluations = 0
        self.nontrivial = set()
        self.outcomes = collections.Counter()
        self.failures = []  # dicts {case, sig, detail, order}
        self.samples = []
        self.states = None
        self.transitions = None
        self.traces = None
        self.exhaustive = True
        self.caps = []
        self.rule = ""
        self.assumptions = []
        self.extra = {}

    def record(self, case, out, order=None):
        self.evaluations += 1
        if out.get("nontrivial", True):
            self.nontrivial.add(hashlib.sha1(jkey(case).encode()).digest()[:8])
        self.outcomes[out.get("outcome", "ok" if out.get("ok") else "fail")] += 1
        if len(self.samples) < 3 and out.get("ok"):
            self.samples.append({"case": case, "outcome": out.get("outcome", "ok")})
        for f in out.get("failures", []) if not out.get("ok") else []:
            self.failures.append(
                {"case": f.get("case", case), "sig": f.get("sig", {}), "detail": f.get("detail", ""), "order": order}
            )
        if not out.get("ok") and not out.get("failures"):
            self.failures.append(
                {"case": case, "sig": out.get("sig", {}), "detail": out.get("detail", ""), "order": order}
            )


# ---------------------------------------------------------------------------
# pool


def _worker_init(modname):
    try:
        env.private_cache_home(tag=f"w{os.getpid()}")
        env.import_lib()  # the tree under test (VERIF_REPO) must be the first ceos_alos2 imported
        mod = importlib.import_module(modname)
        if hasattr(mod, "worker_init"):
            mod.worker_init()
    except BaseException:
        traceback.print_exc()
        raise


class LenientOut(dict):
    """outcome of a case whose execution was cut short by an exception of the code under test:
    counters the check's run() loop may read default to 0 / empty"""

    def __missing__(self, key):
        return {} if key in ("hist", "kids") else [] if key in ("order_ids", "unverified") else 0


def library_frame(e):
    """innermost traceback frame inside the tree under test (None if the exception never passed through it)"""
    root = str(env.REPO / "ceos_alos2") + os.sep
    tb, hit = e.__traceback__, None
    while tb is not None:
        fn = tb.tb_frame.f_code.co_filename
        if fn.startswith(root) and os.sep + "tests" + os.sep not in fn:
            hit = f"{fn[len(root):]}:{tb.tb_frame.f_code.co_name}"
        tb = tb.tb_next
    return hit


def _worker_call(args):
    modname, fname, idx, case = args
    mod = importlib.import_module(modname)
    try:
        out = getattr(mod, fname)(case)
    except HarnessError as e:
        return idx, case, {"harness_error": str(e)}
    except BaseException as e:
        where = library_frame(e)
        tb = e.__traceback__
        while tb.tb_next is not None:
            tb = tb.tb_next
        in_harness = tb.tb_frame.f_code.co_filename.startswith(str(VERIF)) or "McFile" in str(e) or "McFS" in str(e)
        structural = isinstance(e, (KeyError, AttributeError, IndexError, TypeError, ValueError)) and "McFile" not in str(e) and "McFS" not in str(e)
        if (where is None or in_harness) and structural:
            # the harness could not even read the result (a group, variable or attribute it navigates to is missing or has
            # another structure): on the unchanged tree this never happens, so it is a verdict about the tree under test
            text = "".join(traceback.format_exception(e))
            out = LenientOut(
                ok=False,
                outcome=f"result-not-interpretable:{type(e).__name__}",
                nontrivial=True,
                failures=[{"sig": {"kind": "result-not-interpretable", "exc": type(e).__name__}, "detail": f"the harness cannot interpret what the library returned: {type(e).__name__}: {str(e)[:160]} | case {jkey(case)[:300]}"}],
                traceback=text[-1500:],
            )
            return idx, case, out
        if where is None or in_harness:  # harness bug (or a gap of the harness' filesystem), not a verdict
            return idx, case, {"harness_error": "".join(traceback.format_exception(e))[-4000:]}
        # an exception escaping from the library on an input the check considers valid is a verdict
        text = "".join(traceback.format_exception(e))
        out = LenientOut(
            ok=False,
            outcome=f"library-raises:{type(e).__name__}",
            nontrivial=True,
            failures=[{"sig": {"kind": "library-raises", "exc": type(e).__name__, "where": where}, "detail": f"unexpected {type(e).__name__} from {where}: {str(e)[:160]} | case {jkey(case)[:300]}"}],
            traceback=text[-1500:],
        )
    return idx, case, out


def pool_map(modname, fname, cases, procs=None, chunksize=4):
    """Run getattr(module, fname)(case) for every case in forked workers.

    Yields (index, case, outcome).  The parent must not have imported the
    library (workers set up their private cache dir first)."""
    if "ceos_alos2" in sys.modules:
        raise HarnessError("parent imported ceos_alos2 before forking workers")
    procs = procs or int(os.environ.get("VERIF_PROCS", os.cpu_count() or 4))
    env.scratch_root()
    ctx = multiprocessing.get_context("fork")
    with ctx.Pool(procs, initializer=_worker_init, initargs=(modname,)) as pool:
        it = ((modname, fname, i, c) for i, c in enumerate(cases))
        for idx, case, out in pool.imap_unordered(_worker_call, it, chunksize=chunksize):
            if "harness_error" in out:
                raise HarnessError(f"case {jkey(case)[:300]}:\n{out['harness_error']}")
            yield idx, case, out


def run_cases(res, modname, cases, fname="execute", procs=None, chunksize=4):
    for idx, case, out in pool_map(modname, fname, cases, procs=procs, chunksize=chunksize):
        res.record(case, out, order=idx)
    return res


# ---------------------------------------------------------------------------
# known findings


def load_known(pid):
    if not KNOWN.exists():
        return []
    data = json.loads(KNOWN.read_text(encoding="utf-8"))
    return [e for e in data.get("findings", []) if e.get("property") == pid]


def match_known(known, sig):
    for entry in known:
        if entry.get("status") != "open":
            continue
        m = entry.get("match", {})
        if m and all(sig.get(k) == v for k, v in m.items()):
            return entry
    return None


# ---------------------------------------------------------------------------
# evidence / reporting


def write_evidence(res, tier, seed, wall, violations):
    cov = {
        "evaluations": res.evaluations,
        "distinct_nontrivial": len(res.nontrivial),
        "rule": res.rule,
        "samples": res.samples[:5] or [{"note": "no passing sample recorded"}],
        "exhaustive": bool(res.exhaustive and not res.caps),
        "distinct_outcomes": len(res.outcomes),
        "outcome_histogram": dict(res.outcomes.most_common(12)),
        "caps_hit": res.caps,
    }
    if res.states is not None:
        cov["states"] = res.states
        cov["transitions"] = res.transitions
        cov["traces_validated_against_impl"] = res.traces if res.traces is not None else res.evaluations
    cov.update(res.extra)
    doc = {
        "property_id": res.pid,
        "tier": tier,
        "seed": seed,
        "level": res.level,
        "coverage": cov,
        "assumptions": res.assumptions,
        "wall_s": round(wall, 2),
        "violations": violations,
    }
    EVIDENCE_DIR.mkdir(exist_ok=True, parents=True)
    text = json.dumps(doc, indent=1, default=repr, ensure_ascii=False)
    path = EVIDENCE_DIR / f"{res.pid}.json"
    path.write_text(text + "\n", encoding="utf-8")
    validate_evidence(path)


def validate_evidence(path):
    """schema-check with the tooling venv (jsonschema is not in /venv); silent if unavailable"""
    import shutil
    import subprocess

    schema = VERIF / "tools" / "EVIDENCE.schema.json"
    exe = shutil.which("python3-vt")
    if exe is None or not schema.exists():
        return
    code = (
        "import json,sys,jsonschema;"
        "jsonschema.validate(json.load(open(sys.argv[1])), json.load(open(sys.argv[2])))"
    )
    p = subprocess.run([exe, "-c", code, str(path), str(schema)], capture_output=True, text=True)
    if p.returncode != 0:
        raise HarnessError(f"evidence file {path} does not validate: {p.stderr[-800:]}")


def report(res, tier, seed, wall):
    known = load_known(res.pid)
    res.failures.sort(key=lambda f: (f["order"] is None, f["order"] or 0))
    known_hits = collections.OrderedDict()
    fresh = []
    for f in res.failures:
        entry = match_known(known, f["sig"])
        if entry is not None:
            known_hits.setdefault(entry["id"], [entry, 0])[1] += 1
        else:
            fresh.append(f)
    for fid, (entry, n) in known_hits.items():
        print(f"KNOWN-FINDING: property={res.pid} {entry['id']}: {entry['text']} ({n} behaviours matched)")
    res.extra["known_finding_matches"] = {k: v[1] for k, v in known_hits.items()}
    seen_sigs = set()
    reported = 0
    for f in fresh:
        k = jkey(f["sig"])
        if k in seen_sigs and reported >= 3:
            continue
        seen_sigs.add(k)
        if reported >= MAX_REPORTED:
            break
        body = {"property": res.pid, "case": f["case"], "sig": f["sig"], "detail": f["detail"]}
        h = hashlib.sha1(jkey(body["case"]).encode()).hexdigest()[:12]
        d = REPLAY_DIR / res.pid
        d.mkdir(parents=True, exist_ok=True)
        path = d / f"{h}.json"
        path.write_text(json.dumps(body, indent=1, default=repr, ensure_ascii=False) + "\n", encoding="utf-8")
        print(f"VIOLATION property={res.pid} replay={path}")
        print("  " + (f["detail"] or jkey(f["sig"]))[:600].replace("\n", "\n  "))
        reported += 1
    if fresh:
        hist = collections.Counter(jkey(f["sig"]) for f in fresh)
        print(f"violation signature classes ({len(hist)}):")
        for k, n in hist.most_common(15):
            print(f"  {n:6d} x {k}")
    write_evidence(res, tier, seed, wall, len(fresh))
    print(
        f"{res.pid} tier={tier} seed={seed} evaluations={res.evaluations} "
        f"distinct_nontrivial={len(res.nontrivial)} outcomes={len(res.outcomes)} "
        + (f"states={res.states} transitions={res.transitions} " if res.states is not None else "")
        + f"violations={len(fresh)} known={sum(v[1] for v in known_hits.values())} "
        f"exhaustive={bool(res.exhaustive and not res.caps)} wall={wall:.1f}s"
    )
    return 1 if fresh else 0


def main(argv=None):
    ap = argparse.ArgumentParser(prog="run")
    ap.add_argument("pid")
    ap.add_argument("--tier", default=os.environ.get("VERIF_TIER", "quick"), choices=["quick", "thorough"])
    ap.add_argument("--replay")
    args = ap.parse_args(argv)
    pid = args.pid.upper()
    modname = f"mc.checks.{pid.lower()}"
    seed = env.seed()
    t0 = time.time()
    try:
        mod = importlib.import_module(modname)
        if args.replay:
            env.private_cache_home()
            env.import_lib()
            body = json.loads(pathlib.Path(args.replay).read_text(encoding="utf-8"))
            fn = getattr(mod, body["case"].get("fn", "replay"), None) or mod.execute
            out = fn(body["case"])
            print(json.dumps(out, indent=1, default=repr, ensure_ascii=False))
            if not out.get("ok"):
                print(f"VIOLATION property={pid} replay={args.replay}")
                return 1
            return 0
        res = Result(pid, mod.LEVEL)
        mod.run(res, args.tier, seed)
        return report(res, args.tier, seed, time.time() - t0)
    except HarnessError as e:
        print(f"HARNESS-ERROR property={pid}: {e}")
        return 2
    except Exception:
        print(f"HARNESS-ERROR property={pid}:")
        traceback.print_exc()
        return 2


if __name__ == "__main__":
    sys.exit(main())
