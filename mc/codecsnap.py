"""Canonical, JSON-able snapshot of a ceos_alos2 Group hierarchy (for C08/C07/C10).

Used on both sides of the codec and inside the fresh decoding interpreter.
Float NaNs are compared by class (any NaN == NaN), -0.0 != 0.0, dtypes by
their string, tuples and lists are distinct, variable/group order is kept.
"""
import json
import sys

import numpy as np

from mc.treesnap import canon


def arr_canon(data):
    if type(data).__name__ == "Array" and hasattr(data, "byte_ranges"):
        fs = data.fs
        return {
            "backend": {
                "url": data.url,
                "shape": canon(data.shape),
                "dtype": str(data.dtype),
                "byte_ranges": canon(data.byte_ranges),
                "type_code": data.type_code,
                "records_per_chunk": data.records_per_chunk,
                "fs_path": getattr(fs, "path", None),
                "fs_protocol": str(getattr(getattr(fs, "fs", None), "protocol", None)),
            }
        }
    arr = np.asarray(data)
    out = {"dtype": str(arr.dtype.newbyteorder("=")) if arr.dtype.kind not in "O" else "object", "shape": list(arr.shape)}
    if arr.dtype.kind in "US":
        out["values"] = arr.reshape(-1).tolist()
    elif arr.dtype.kind == "O":
        out["values"] = [repr(x) for x in arr.reshape(-1)]
    else:
        a = np.ascontiguousarray(arr.astype(arr.dtype.newbyteorder("="), copy=True))
        if a.dtype.kind in "fc":
            a[np.isnan(a)] = np.nan  # NaN by class
        out["bytes"] = a.tobytes().hex()
    return out


def group_canon(g):
    out = {"path": g.path, "url": g.url, "attrs": canon(g.attrs), "order": list(g.data), "vars": {}, "groups": {}}
    for name, item in g.data.items():
        if hasattr(item, "dims"):
            out["vars"][name] = {"dims": list(item.dims), "attrs": canon(item.attrs), "data": arr_canon(item.data)}
        else:
            out["groups"][name] = group_canon(item)
    return out


def diff(a, b, path=""):
    """first few differences between two canonical snapshots"""
    out = []
    if isinstance(a, dict) and isinstance(b, dict):
        for k in list(a) + [k for k in b if k not in a]:
            if k not in a or k not in b:
                out.append(f"{path}/{k}: {'missing' if k not in a else 'present'} before, {'missing' if k not in b else 'present'} after")
            else:
                out += diff(a[k], b[k], f"{path}/{k}")
            if len(out) > 5:
                break
    elif a != b:
        out.append(f"{path}: {str(a)[:80]} -> {str(b)[:80]}")
    return out


def main():
    """fresh-interpreter decoder: argv[1] = file with one JSON list of [text, rpc]; prints JSON list of snapshots"""
    from mc import env

    env.import_lib()
    from ceos_alos2.sar_image import caching

    docs = json.loads(open(sys.argv[1], encoding="utf-8").read())
    out = []
    for text, rpc in docs:
        try:
            out.append(group_canon(caching.decode(text, rpc)))
        except Exception as e:
            out.append({"error": f"{type(e).__name__}: {e}"})
    print(json.dumps(out))


if __name__ == "__main__":
    main()
