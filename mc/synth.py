"""E1: independent encoder.  ProductSpec -> {filename: bytes} from the frozen
layout tables in mc/layout/*.json.  Imports nothing from ceos_alos2.

A spec is a baseline (every field holds a distinct, well-formed value) plus
*deviations* ``(file, record-instance, field) := value``.  ``build`` returns the
files and ``resolved``: for every record instance the exact bytes written into
every field - the only thing the reference model (mc/refmodel.py) looks at.
"""
import copy
import json
import pathlib
import struct

import numpy as np

LAYOUT_DIR = pathlib.Path(__file__).resolve().parent / "layout"


class Layout:
    def __init__(self, name):
        doc = json.loads((LAYOUT_DIR / f"{name}.json").read_text(encoding="utf-8"))
        self.name = name
        self.size = doc["size"]
        self.fields = [f for f in doc["fields"] if f["kind"] != "meta"]
        self.meta = [f for f in doc["fields"] if f["kind"] == "meta"]
        self.by_name = {}
        for i, f in enumerate(self.fields):
            f["idx"] = i
            # duplicate names exist (vol.text_record has two 'blanks'): keep first, index others
            key = f["name"]
            while key in self.by_name:
                key = key + "'"
            f["key"] = key
            self.by_name[key] = f

    def check_contiguous(self):
        off = 0
        for f in self.fields:
            assert f["off"] == off, (self.name, f["name"], f["off"], off)
            off += f["w"]
        assert off == self.size, (self.name, off, self.size)


_layouts = {}


def layout(name):
    if name not in _layouts:
        _layouts[name] = Layout(name)
    return _layouts[name]


ALL_LAYOUTS = [p.stem for p in sorted(LAYOUT_DIR.glob("*.json"))]

# ---------------------------------------------------------------------------
# value formatting


def fmt_int(v, w):
    s = str(int(v))
    assert len(s) <= w, (v, w)
    return s.rjust(w).encode("ascii")


def fmt_float(v, w):
    if w >= 16:
        s = f"{v:.7E}"
    elif w >= 13:
        s = f"{v:.6E}"
    else:
        s = f"{v:.3f}"
    assert len(s) <= w, (v, w, s)
    return s.rjust(w).encode("ascii")


def encode_value(f, v):
    """Encode python value v for layout field f into exactly f['w'] bytes."""
    w, kind = f["w"], f["kind"]
    if isinstance(v, (bytes, bytearray)):
        b = bytes(v)
    elif kind == "B":
        b = int(v).to_bytes(w, "big")
    elif kind == "ydms":
        b = struct.pack(">III", *v)
    elif kind == "us":
        b = struct.pack(">Q", int(v))
    elif kind == "X":
        b = bytes(v)
    elif isinstance(v, str):
        b = (v.rjust(w) if kind in "IFC" else v.ljust(w)).encode("ascii")
    elif kind == "I":
        b = fmt_int(v, w)
    elif kind == "F":
        b = fmt_float(v, w)
    elif kind == "C":
        b = fmt_float(v[0], w // 2) + fmt_float(v[1], w // 2)
    elif kind == "A":
        b = str(v).ljust(w).encode("ascii")
    else:
        raise ValueError((f, v))
    assert len(b) == w, (f["name"], b, w)
    return b


def is_spare(name):
    for seg in name.split("."):
        seg = seg.split("[")[0]
        for pre in ("spare", "blanks"):
            if seg.startswith(pre) and (seg[len(pre) :] == "" or seg[len(pre) :].isdigit()):
                return True
    return False


def baseline_value(f, salt):
    """Distinct, well-formed default for a field; salt separates record instances."""
    n = salt * 1000 + f["idx"] + 1
    w, kind = f["w"], f["kind"]
    if "enum" in f:
        codes = list(f["enum"].values())
        code = codes[n % len(codes)]
        return encode_value(f, code)
    if f.get("flag"):
        return encode_value(f, n % 2)
    if is_spare(f["name"]):
        if kind in "AIFC":
            return b" " * w
        return b"\x00" * w
    if kind == "I":
        digits = min(w, 5)
        lo = 10 ** (digits - 1) if digits > 1 else 1
        return fmt_int(lo + n % (9 * lo if digits > 1 else 9), w)
    if kind == "F":
        return fmt_float((n % 997) + 0.5 + (n % 7) * 0.0625, w)
    if kind == "C":
        return fmt_float((n % 997) + 0.25, w // 2) + fmt_float(-(n % 991) - 0.75, w // 2)
    if kind == "A":
        return f"T{n}"[:w].ljust(w).encode()
    if kind == "X":
        return b"\x00" * w
    if kind == "B":
        if w == 1:
            return bytes([n % 250 + 1])
        return (n % 60000 + 1).to_bytes(w, "big")
    if kind == "ydms":
        return struct.pack(">III", 2015, 1 + n % 300, 1000 + n)
    if kind == "us":
        return struct.pack(">Q", 1_000_000 + n)
    raise ValueError(f)


def encode_record(lay, overrides, salt, size=None, resolved=None):
    """Bytes of one record: baseline values + overrides {field key: value}."""
    buf = bytearray(b" " * (size or lay.size))
    unknown = set(overrides) - set(lay.by_name)
    assert not unknown, (lay.name, unknown)
    for f in lay.fields:
        if f["key"] in overrides:
            b = encode_value(f, overrides[f["key"]])
        else:
            b = baseline_value(f, salt)
        buf[f["off"] : f["off"] + f["w"]] = b
        if resolved is not None:
            resolved[f["key"]] = b
    return bytes(buf)


def preamble(seq, sub1, typ, sub2, sub3, length):
    return {
        "preamble.record_sequence_number": seq,
        "preamble.first_record_subtype": sub1,
        "preamble.record_type": typ,
        "preamble.second_record_subtype": sub2,
        "preamble.third_record_subtype": sub3,
        "preamble.record_length": length,
    }


# ---------------------------------------------------------------------------
# the spec

TYPE_INFO = {
    "C*8": {"bps": 8, "prefix": 544, "rec": "img.signal_data", "rtype": 10, "dtype": ">f4"},
    "IU2": {"bps": 2, "prefix": 192, "rec": "img.processed_data", "rtype": 11, "dtype": ">u2"},
}

# per-line fields that the reader reports once per file (C03): kept constant
# over the lines of one image in the baseline
LINE_CONSTANTS = {
    "sar_image_data_record_index",
    "sensor_parameters_update_flag",
    "scan_id",
    "sar_channel_code",
    "sar_channel_id",
    "onboard_range_compressed_flag",
    "chirp_type_designator",
    "platform_position_parameters_update_flag",
    "geographic_reference_parameter_update_flag",
    "transmitted_pulse_polarization",
    "received_pulse_polarization",
}

DEFAULT_SCENE = "ALOS2014410740-140829"
LEVEL_PID = {"1.1": "WBDR1.1__D", "1.5": "WBDR1.5RUD", "3.1": "WBDR3.1RLD"}


def default_samples(lines, pixels, type_code, image_id=0):
    """Position-coded samples: value = f(image, line, pixel)."""
    if type_code == "IU2":
        ll, pp = np.meshgrid(np.arange(lines), np.arange(pixels), indexing="ij")
        return ((image_id * 7919 + ll * 251 + pp * 13 + 1) % 65536).astype(">u2")
    ll, pp = np.meshgrid(np.arange(lines), np.arange(pixels * 2), indexing="ij")
    return (image_id * 1000.0 + ll * 100.0 + pp * 0.5 + 0.25).astype(">f4")


def image_spec(pol="HH", scan=None, lines=3, pixels=4, type_code="IU2", samples=None, header=None, line_values=None):
    return {
        "pol": pol,
        "scan": scan,
        "lines": lines,
        "pixels": pixels,
        "type": type_code,
        "samples": samples,  # None -> default_samples; else raw big-endian bytes per line (list) or ndarray
        "header": dict(header or {}),
        "line_values": dict(line_values or {}),  # {(field key, line index or None=all): value}
    }


def product_spec(level="1.5", images=None, **kw):
    tc = "C*8" if level == "1.1" else "IU2"
    if images is None:
        images = [image_spec("HH", None, 3, 4, tc), image_spec("HV", None, 3, 4, tc)]
    spec = {
        "level": level,
        "scene_id": DEFAULT_SCENE,
        "product_id": LEVEL_PID[level],
        "images": images,
        "leader": {
            "n_att": 3,
            "n_chan": 2,
            "n_mp": 0 if level == "1.1" else 1,
            "fac_len": [100, 101, 102, 103],
            "att_len": 16384,
            "designator": "UTM-PROJECTION",
            "values": {},  # {(record instance, field key): value}
        },
        "vol": {"n_fp": 4, "values": {}},
        "summary": {"lines": None, "eol": "\n", "final_newline": True},
        "trailer": b"",
    }
    spec.update(kw)
    return spec


def with_dev(spec, file, rec, field, value, line=None):
    """Return a copy of spec with one deviation applied."""
    s = copy.copy(spec)
    if file == "led":
        s["leader"] = dict(s["leader"])
        s["leader"]["values"] = dict(s["leader"]["values"])
        s["leader"]["values"][(rec, field)] = value
    elif file == "vol":
        s["vol"] = dict(s["vol"])
        s["vol"]["values"] = dict(s["vol"]["values"])
        s["vol"]["values"][(rec, field)] = value
    elif file.startswith("img"):
        i = int(file[3:])
        s["images"] = list(s["images"])
        im = dict(s["images"][i])
        if rec == "file_descriptor":
            im["header"] = dict(im["header"])
            im["header"][field] = value
        else:
            im["line_values"] = dict(im["line_values"])
            im["line_values"][(field, line)] = value
        s["images"][i] = im
    else:
        raise ValueError(file)
    return s


def image_name(spec, im):
    name = f"IMG-{im['pol']}-{spec['scene_id']}-{spec['product_id']}"
    if im.get("scan"):
        name += f"-{im['scan']}"
    return name


def file_names(spec):
    sid, pid = spec["scene_id"], spec["product_id"]
    return {
        "vol": f"VOL-{sid}-{pid}",
        "led": f"LED-{sid}-{pid}",
        "trl": f"TRL-{sid}-{pid}",
        "img": [image_name(spec, im) for im in spec["images"]],
    }


def _vals(values, rec):
    return {k[1]: v for k, v in values.items() if k[0] == rec}


def samples_bytes(im, image_id):
    """list of per-line raw sample bytes"""
    info = TYPE_INFO[im["type"]]
    s = im["samples"]
    if s is None:
        s = default_samples(im["lines"], im["pixels"], im["type"], image_id)
    if isinstance(s, np.ndarray):
        assert s.dtype.str == info["dtype"], s.dtype
        return [s[i].tobytes() for i in range(im["lines"])]
    return [bytes(b) for b in s]


def build_image(im, image_id, resolved):
    info = TYPE_INFO[im["type"]]
    L, P = im["lines"], im["pixels"]
    reclen = info["prefix"] + P * info["bps"]
    fd = layout("img.file_descriptor")
    hov = {
        **preamble(1, 50, 192, 18, 18, 720),
        "number_of_sar_data_records": L,
        "sar_data_record_length": reclen,
        "sar_related_data_in_the_record.number_of_lines_per_dataset": L,
        "sar_related_data_in_the_record.number_of_data_groups_per_line": P,
        "prefix_suffix_data_locators.sar_data_format_type_code": im["type"],
        "sar_related_data_in_the_record.interleaving_id": "BSQ",
        "prefix_suffix_data_locators.maximum_data_range_of_pixel": 65535 - image_id,
        "prefix_suffix_data_locators.number_of_burst_data": 11 + image_id,
        "prefix_suffix_data_locators.number_of_lines_per_burst": 21 + image_id,
        "scansar_burst_data_information.number_of_overlap_lines_with_adjacent_bursts": 31 + image_id,
    }
    hid = image_id
    if im.get("twin_header"):
        # the polarisations of one scene are processed onto the same grid: their file descriptors are identical field by field
        hid = 0
        hov.update({"prefix_suffix_data_locators.maximum_data_range_of_pixel": 65535, "prefix_suffix_data_locators.number_of_burst_data": 11, "prefix_suffix_data_locators.number_of_lines_per_burst": 21, "scansar_burst_data_information.number_of_overlap_lines_with_adjacent_bursts": 31})
    hov.update(im["header"])
    r = resolved.setdefault(("img%d" % image_id, "file_descriptor"), {})
    out = [encode_record(fd, hov, salt=50 + hid, resolved=r)]
    rec = layout(info["rec"])
    samples = samples_bytes(im, image_id)
    assert len(samples) == L
    const_salt = 60 + image_id
    for k in range(L):
        ov = {
            **preamble(k + 2, 50, info["rtype"], 18, 20, reclen),
            "sar_image_data_line_number": k + 1,
            "actual_count_of_data_pixels": P,
        }
        # constants: same value on every line (baseline derived from a line-independent salt)
        for f in rec.fields:
            if f["key"] in LINE_CONSTANTS:
                ov[f["key"]] = baseline_value(f, const_salt)
        mode = im.get("line_mode") or "distinct"
        # "steps": piecewise constant, the value changes at lines 4, 15, 1000, 1024 and 4096
        salt = 100 * (image_id + 1) + (k if mode == "distinct" else sum(k >= c for c in (4, 15, 1000, 1024, 4096)) if mode == "steps" else 0)
        if mode in ("near", "near-pairs"):
            # the images of one product carry almost the same per-line values: the same baseline for every image, and image i
            # (or pair of images i // 2) differs from it by i units of every wide numeric field (relative difference ~1e-7 .. 1e-9)
            salt = 100 + k
            bump = image_id if mode == "near" else image_id // 2
            for f in rec.fields:
                if f["key"] in LINE_CONSTANTS or f["key"] in ov or "enum" in f or f.get("flag") or is_spare(f["name"]):
                    continue
                if f["kind"] == "B" and f["w"] >= 4:
                    ov[f["key"]] = (3_000_000 + int.from_bytes(baseline_value(f, salt), "big") + bump).to_bytes(f["w"], "big")
                elif f["kind"] == "ydms":
                    y, d, ms = struct.unpack(">III", baseline_value(f, salt))
                    ov[f["key"]] = struct.pack(">III", y, d, ms + bump)
                elif f["kind"] == "us":
                    ov[f["key"]] = struct.pack(">Q", struct.unpack(">Q", baseline_value(f, salt))[0] + bump)
        if mode == "steps":
            # per-line flags are set on every other stretch: set, cleared again, set ...
            stretch = sum(k >= c for c in (4, 15, 1000, 1024, 4096))
            for f in rec.fields:
                if f.get("flag") and f["key"] not in LINE_CONSTANTS and f["key"] not in ov:
                    ov[f["key"]] = (stretch + 1) % 2
        if mode in ("drift", "bumpy", "bumpy-const"):
            # consecutive lines differ by one unit of every wide numeric field (and 1 ms / 1 us); "bumpy": the same ramp except
            # that lines 7 and 13 are one unit off it; "bumpy-const": constant except for those two lines
            ramp = k
            if mode != "drift":
                ramp = (0 if mode == "bumpy-const" else k) + {7: 1, 13: -1}.get(k, 0)
            for f in rec.fields:
                if f["key"] in LINE_CONSTANTS or f["key"] in ov or "enum" in f or f.get("flag") or is_spare(f["name"]):
                    continue
                if f["kind"] == "B" and f["w"] >= 4:
                    ov[f["key"]] = (3_000_000 + int.from_bytes(baseline_value(f, salt), "big") + ramp).to_bytes(f["w"], "big")
                elif f["kind"] == "ydms":
                    y, d, ms = struct.unpack(">III", baseline_value(f, salt))
                    ov[f["key"]] = struct.pack(">III", y, d, ms + ramp)
                elif f["kind"] == "us":
                    ov[f["key"]] = struct.pack(">Q", struct.unpack(">Q", baseline_value(f, salt))[0] + ramp)
        for (field, line), value in im["line_values"].items():
            if line is None or line == k:
                ov[field] = value
        r = resolved.setdefault(("img%d" % image_id, f"line[{k}]"), {})
        pre = encode_record(rec, ov, salt=salt, resolved=r)
        assert len(pre) == info["prefix"]
        assert len(samples[k]) == P * info["bps"], (len(samples[k]), P, info["bps"])
        out.append(pre + samples[k])
    return b"".join(out)


DQ_SIZE = 1620


def build_leader(spec, resolved):
    ld = spec["leader"]
    values = ld["values"]
    n_att, n_chan, n_mp = ld["n_att"], ld["n_chan"], ld["n_mp"]
    parts = []

    def rec(inst, lay_name, fixed, salt, size=None):
        ov = dict(fixed)
        ov.update(_vals(values, inst))
        r = resolved.setdefault(("led", inst), {})
        return encode_record(layout(lay_name), ov, salt=salt, size=size, resolved=r)

    parts.append(
        rec(
            "file_descriptor",
            "led.file_descriptor",
            {**preamble(1, 11, 192, 18, 18, 720), "map_projection.number_of_records": n_mp},
            salt=1,
        )
    )
    parts.append(
        rec(
            "dataset_summary",
            "led.dataset_summary",
            {**preamble(2, 18, 10, 18, 20, 4096), "scene_center_time": "20150101000001000"},
            salt=2,
        )
    )
    for k in range(n_mp):
        parts.append(
            rec(
                "map_projection" if k == 0 else f"map_projection[{k}]",
                "led.map_projection",
                {**preamble(3, 18, 20, 18, 20, 1620), "map_projection_designator": ld["designator"]},
                salt=3,
            )
        )
    parts.append(
        rec(
            "platform_position",
            "led.platform_position",
            {
                **preamble(4, 18, 30, 18, 20, 4680),
                "datetime_of_first_point.date": b"2015  01  01",
                "datetime_of_first_point.day_of_year": 1,
                "datetime_of_first_point.seconds_of_day": "1.0",
                "occurrence_flag_of_a_leap_second": 0,
            },
            salt=4,
        )
    )
    # attitude record: 12 preamble + 4 count + 120*n + padding to declared length
    att_len = ld["att_len"]
    att = bytearray(b" " * att_len)
    head = {"number_of_points": n_att, **preamble(5, 18, 40, 18, 20, att_len)}
    head.update(_vals(values, "attitude"))
    r = resolved.setdefault(("led", "attitude"), {})
    att[:16] = encode_record(layout("led.attitude_head"), head, salt=5, resolved=r)
    for k in range(n_att):
        ov = {"time.day_of_year": 1 + k % 300, "time.millisecond_of_day": 1000 + k}
        for name in ("attitude", "rates"):
            for ax in ("pitch", "roll", "yaw"):
                ov[f"{name}.{ax}_error"] = (k + len(ax)) % 2
        ov.update(_vals(values, f"attitude_point[{k}]"))
        r = resolved.setdefault(("led", f"attitude_point[{k}]"), {})
        att[16 + 120 * k : 16 + 120 * (k + 1)] = encode_record(
            layout("led.attitude_point"), ov, salt=200 + k, resolved=r
        )
    assert len(att) == att_len
    parts.append(bytes(att))
    parts.append(rec("radiometric_data", "led.radiometric_data", preamble(6, 18, 50, 18, 20, 9860), salt=6))
    # data quality summary (channel-count dependent interior padding)
    dq = bytearray(b" " * DQ_SIZE)
    head = {**preamble(7, 18, 60, 18, 20, DQ_SIZE), "number_of_channels": n_chan}
    head.update(_vals(values, "data_quality_summary"))
    r = resolved.setdefault(("led", "data_quality_summary"), {})
    dq[:222] = encode_record(layout("led.dq_head"), head, salt=7, resolved=r)
    for j in range(n_chan):
        r = resolved.setdefault(("led", f"dq_rel_radiometric[{j}]"), {})
        dq[222 + 32 * j : 254 + 32 * j] = encode_record(
            layout("led.dq_calibration_uncertainty"), _vals(values, f"dq_rel_radiometric[{j}]"), salt=300 + j, resolved=r
        )
    r = resolved.setdefault(("led", "dq_abs_geometric"), {})
    dq[734:830] = encode_record(layout("led.dq_abs_geometric"), _vals(values, "dq_abs_geometric"), salt=8, resolved=r)
    for j in range(n_chan):
        r = resolved.setdefault(("led", f"dq_rel_geometric[{j}]"), {})
        dq[830 + 32 * j : 862 + 32 * j] = encode_record(
            layout("led.dq_misregistration_error"), _vals(values, f"dq_rel_geometric[{j}]"), salt=400 + j, resolved=r
        )
    filler = _vals(values, "dq_padding")
    if "rel_radiometric" in filler:
        pad = filler["rel_radiometric"]
        dq[222 + 32 * n_chan : 734] = (pad * 600)[: 734 - 222 - 32 * n_chan]
    if "rel_geometric" in filler:
        pad = filler["rel_geometric"]
        dq[830 + 32 * n_chan : DQ_SIZE] = (pad * 900)[: DQ_SIZE - 830 - 32 * n_chan]
    parts.append(bytes(dq))
    for k in range(4):
        flen = ld["fac_len"][k]
        ov = {**preamble(8 + k, 18, 200, 18, 70, flen), "record_sequence_number": k + 1}
        ov.update(_vals(values, f"facility_related_data_{k + 1}"))
        raw = ov.pop("raw_file_data", None)
        r = resolved.setdefault(("led", f"facility_related_data_{k + 1}"), {})
        b = bytearray(b" " * flen)
        b[:66] = encode_record(layout("led.facility_head"), ov, salt=9 + k, resolved=r)
        if raw is None:
            raw = (f"F{k + 1}-" + "x" * flen)[: flen - 66].encode()
        raw = (bytes(raw) + b" " * flen)[: flen - 66]
        b[66:] = raw
        r["raw_file_data"] = raw
        parts.append(bytes(b))
    parts.append(
        rec(
            "facility_related_data_5",
            "led.facility_related_data_5",
            {**preamble(12, 18, 200, 18, 70, 5000), "record_sequence_number": 5, "prf_switching_flag": 0},
            salt=13,
        )
    )
    return b"".join(parts)


def build_vol(spec, resolved):
    v = spec["vol"]
    values = v["values"]
    n_fp = v["n_fp"]
    ov = {
        **preamble(1, 192, 192, 18, 18, 360),
        "number_of_file_pointer_records": n_fp,
        "logical_volume_creation_datetime": "2015010112000012",
    }
    ov.update(_vals(values, "volume_descriptor"))
    r = resolved.setdefault(("vol", "volume_descriptor"), {})
    parts = [encode_record(layout("vol.volume_descriptor"), ov, salt=20, resolved=r)]
    for k in range(n_fp):
        ov = dict(preamble(2 + k, 219, 192, 18, 18, 360))
        ov.update(_vals(values, f"file_pointer[{k}]"))
        r = resolved.setdefault(("vol", f"file_pointer[{k}]"), {})
        parts.append(encode_record(layout("vol.file_pointer"), ov, salt=21 + k, resolved=r))
    ov = dict(preamble(2 + n_fp, 18, 63, 18, 18, 360))
    ov.update(_vals(values, "text_record"))
    r = resolved.setdefault(("vol", "text_record"), {})
    parts.append(encode_record(layout("vol.text_record"), ov, salt=40, resolved=r))
    return b"".join(parts)


def summary_lines(spec):
    names = file_names(spec)
    lv = spec["level"].replace(".", "")
    files = [names["vol"], names["led"]] + names["img"] + [names["trl"]]
    sid = spec["scene_id"]
    lines = [
        f'Odi_SceneId="{sid}"',
        'Odi_SiteDateTime="20140829 03:21:54"',
        f'Scs_SceneID="{sid}"',
        'Scs_SceneShift="0"',
        f'Pds_ProductID="{spec["product_id"]}"',
        'Pds_ResamplingMethod="NN"',
        'Pds_UTM_ZoneNo="53"',
        'Pds_MapDirection="MapNorth"',
        'Pds_OrbitDataPrecision="Precision"',
        'Pds_AttitudeDataPrecision="Onboard"',
        'Pds_PixelSpacing="25.0"',
        'Img_SceneCenterDateTime="20140829 03:21:54.541"',
        'Img_SceneStartDateTime="20140829 03:21:44.541"',
        'Img_ImageSceneCenterLatitude="35.1"',
        'Img_ImageSceneCenterLongitude="-139.25"',
        f'Pdi_CntOfL{lv}ProductFileName="{len(files)}"',
    ]
    lines += [f'Pdi_L{lv}ProductFileName{i + 1:02d}="{f}"' for i, f in enumerate(files)]
    lines += ['Pdi_BitPixel="16"']
    for i, im in enumerate(spec["images"][:3]):
        lines += [f'Pdi_NoOfPixels_{i}="{im["pixels"]}"', f'Pdi_NoOfLines_{i}="{im["lines"]}"']
    lines += [
        'Pdi_ProductFormat="CEOS"',
        'Pdi_ProductDataSize="1.5"',
        'Ach_TimeCheck="GOOD"',
        'Ach_AttitudeCheck=""',
        'Rad_PracticeResultCode="GOOD"',
        'Lbi_Satellite="ALOS2"',
        'Lbi_ProcessFacility="SCMO"',
        'Lbi_ObservationDate="20140829"',
    ]
    return lines


def build_summary(spec):
    s = spec["summary"]
    lines = s["lines"] if s.get("lines") is not None else summary_lines(spec)
    eol = s.get("eol", "\n")
    text = eol.join(lines)
    if s.get("final_newline", True):
        text += eol
    return text.encode()


def build(spec):
    """-> (files {name: bytes}, resolved {(file, record instance): {field: bytes}})"""
    resolved = {}
    names = file_names(spec)
    files = {}
    files["summary.txt"] = build_summary(spec)
    files[names["vol"]] = build_vol(spec, resolved)
    files[names["led"]] = build_leader(spec, resolved)
    for i, im in enumerate(spec["images"]):
        files[names["img"][i]] = build_image(im, i, resolved)
    files[names["trl"]] = spec.get("trailer", b"")
    return files, resolved


def write_local(root, files):
    root = pathlib.Path(root)
    root.mkdir(parents=True, exist_ok=True)
    for k, v in files.items():
        (root / k).write_bytes(v)
    return str(root)


def write_memory(root, files):
    import fsspec

    fs = fsspec.filesystem("memory")
    for k, v in files.items():
        fs.pipe(f"{root}/{k}", v)
    return f"memory://{root}"


def image_offsets(im):
    """independent arithmetic: [(data start, data stop)] per line of an image file"""
    info = TYPE_INFO[im["type"]]
    reclen = info["prefix"] + im["pixels"] * info["bps"]
    return [(720 + k * reclen + info["prefix"], 720 + (k + 1) * reclen) for k in range(im["lines"])]
