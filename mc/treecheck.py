"""Execute one product spec on the real code and compare the tree with the reference model."""
import re

from mc import harness, refmodel, synth


def mismatch_sig(leaf, e, a):
    sig = {"leaf": re.sub(r"\[\d+\]", "[*]", leaf)}
    m = re.match(r"^/metadata/attitude/(attitude|rates):time\[", leaf)
    if isinstance(e, list) and isinstance(a, list) and e[:1] == ["datetime"] and a[:1] == ["datetime"]:
        if isinstance(e[1], int) and isinstance(a[1], int):
            sig["delta_ns"] = a[1] - e[1]
    if m:
        sig["leaf"] = "/metadata/attitude/*:time[*]"
    if a == "missing":
        sig["kind"] = "missing"
    return sig


def spec_from_case(case):
    """case['spec'] keys: level, images [[pol, scan, L, P]], leader {..}, vol {..}; case['devs'] deviations"""
    sp = case.get("spec", {})
    level = sp.get("level", "1.5")
    tc = "C*8" if level == "1.1" else "IU2"
    images = None
    if "images" in sp:
        images = [synth.image_spec(pol, scan, L, P, tc) for pol, scan, L, P in sp["images"]]
    spec = synth.product_spec(level, images=images)
    if sp.get("pad_files"):
        spec["pad_files"] = {k: tuple(v) for k, v in sp["pad_files"].items()}
    if sp.get("line_mode"):
        for im in spec["images"]:
            im["line_mode"] = sp["line_mode"]
    if sp.get("twin_headers"):
        for im in spec["images"][1:]:
            im["twin_header"] = True
    for k, v in sp.get("leader", {}).items():
        spec["leader"][k] = v
    for k, v in sp.get("vol", {}).items():
        spec["vol"][k] = v
    if "product_id" in sp:
        spec["product_id"] = sp["product_id"]
    if "scene_id" in sp:
        spec["scene_id"] = sp["scene_id"]
    for d in case.get("devs", []):
        file, rec, field, value = d[:4]
        line = d[4] if len(d) > 4 else None
        if isinstance(value, dict) and "hex" in value:
            value = bytes.fromhex(value["hex"])
        elif isinstance(value, list):
            value = tuple(value)
        spec = synth.with_dev(spec, file, rec, field, value, line)
    return spec


def check_spec(spec, kind="mcfs", only=None, ignore=(), open_kw=None, attitude_plus_days=0, files=None, resolved=None, pre=(), prepare=None):
    """-> dict(ok, failures [{sig, detail}], n_leaves, unverified, error)

    pre: option dicts of opens performed (and discarded) on the same product before the compared one"""
    if files is None:
        files, resolved = synth.build(spec)
    if spec.get("pad_files"):
        # bytes behind the last record of a file (padding to a block size): never part of the content
        names = synth.file_names(spec)
        files = dict(files)
        for which, (n, byte) in spec["pad_files"].items():
            for name in ([names[which]] if which != "img" else names["img"]):
                files[name] = files[name] + bytes([byte]) * n
    exp = refmodel.expected(spec, resolved, attitude_plus_days=attitude_plus_days)
    with harness.Product(files, kind) as prod:
        try:
            if prepare is not None:
                prepare(prod)
            for kw in pre:
                if callable(kw):
                    kw(prod)
                else:
                    prod.open(**kw)
            tree = prod.open(**(open_kw or {}))
            act = refmodel.semantic(tree)
        except Exception as e:
            tb = e.__traceback__
            while tb.tb_next is not None:
                tb = tb.tb_next
            where = f"{tb.tb_frame.f_code.co_filename.rsplit('/', 1)[-1]}:{tb.tb_frame.f_code.co_name}"
            if spec.get("pad_files"):
                # whether bytes behind the last record make a file ill-formed is not settled by any property: refusing such a
                # file is fail-stop behaviour; only a silently different tree is a violation
                return {"ok": True, "failures": [], "n_leaves": 0, "unverified": [], "raised": type(e).__name__}
            return {
                "ok": False,
                "failures": [{"sig": {"kind": "raises", "exc": type(e).__name__, "where": where}, "detail": f"open_alos2 raises {type(e).__name__}: {str(e)[:160]} (in {where})"}],
                "n_leaves": 0,
                "unverified": [],
                "raised": type(e).__name__,
            }
    bad, unv = refmodel.compare(exp, act, ignore_prefixes=ignore, only_prefixes=only)
    fails, seen = [], set()
    for leaf, e, a in bad:
        sig = mismatch_sig(leaf, e, a)
        key = str(sorted(sig.items()))
        if key in seen:
            continue
        seen.add(key)
        fails.append({"sig": sig, "detail": f"{leaf}: expected {str(e)[:90]} got {str(a)[:90]}"})
    return {"ok": not fails, "failures": fails, "n_leaves": len(exp), "unverified": unv, "actual": act, "expected": exp}


def check_replaced(spec_a, spec_b, kind="local", keep_mtime=True, only=None, ignore=(), open_kw=None):
    """the product is opened as A, then the files in which B differs are overwritten in place (optionally keeping their
    modification time, like cp -p / rsync -t / an unpacked archive) and it is opened again: the tree must be B's"""
    files_a, _ = synth.build(spec_a)
    files_b, resolved_b = synth.build(spec_b)
    changed = [n for n in files_b if files_a.get(n) != files_b[n]]
    assert changed and set(files_a) == set(files_b), "A and B must have the same files"

    def to_a(prod):
        for n in changed:
            prod.put(n, files_a[n])

    def to_b(prod):
        for n in changed:
            prod.put(n, files_b[n], keep_mtime=keep_mtime)

    out = check_spec(spec_b, kind=kind, only=only, ignore=ignore, open_kw=open_kw, files=files_b, resolved=resolved_b, prepare=to_a, pre=[open_kw or {}, to_b])
    out["changed_files"] = changed
    return out
