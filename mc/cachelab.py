"""Helpers around the index cache (C07, C09, C10): audit-event recorder, cache
locations computed independently of the library, CLI driver, directory digests."""
import contextlib
import hashlib
import io
import os
import pathlib
import shutil
import sys

from mc import env, synth, vfs

_events = []
_recording = [False]
_installed = [False]


def _hook(event, args):
    if not _recording[0]:
        return
    if event == "open":
        path, mode = args[0], args[1]
        if mode is None and len(args) > 2 and isinstance(args[2], int):
            # os.open(path, flags): no mode string - a descriptor opened for writing / creating counts as a write
            mode = "w" if args[2] & (os.O_WRONLY | os.O_RDWR | os.O_CREAT | os.O_TRUNC | os.O_APPEND) else "r"
        if isinstance(path, (str, bytes, os.PathLike)):
            _events.append(("open", os.fsdecode(path), mode or "r"))
    elif event in ("os.rename", "os.remove", "os.mkdir", "os.rmdir", "os.truncate", "shutil.rmtree"):
        _events.append((event, os.fsdecode(args[0]) if isinstance(args[0], (str, bytes, os.PathLike)) else str(args[0]), ""))


def install_audit():
    if not _installed[0]:
        sys.addaudithook(_hook)
        _installed[0] = True


@contextlib.contextmanager
def recording():
    """record local-filesystem audit events and mcfs events of the enclosed block"""
    install_audit()
    del _events[:]
    vfs.reset_log()
    _recording[0] = True
    try:
        yield _events
    finally:
        _recording[0] = False


def local_events():
    return list(_events)


def user_cache_dir(mapper_root):
    """user cache directory for a product root: sha256 of the mapper root (documented scheme)"""
    return env.cache_root() / hashlib.sha256(mapper_root.encode()).hexdigest()


def run_cli(image_path, target=None, rpc=None):
    """drive ceos-alos2-create-cache's main() in process; -> exit code (0 ok)"""
    env.import_lib()
    from ceos_alos2.sar_image import cli

    argv = ["ceos-alos2-create-cache"]
    if rpc is not None:
        argv += ["--rpc", str(rpc)]
    argv.append(str(image_path))
    if target is not None:
        argv.append(str(target))
    old = sys.argv
    sys.argv = argv
    err = io.StringIO()
    try:
        with contextlib.redirect_stderr(err):
            cli.main()
        return 0
    except SystemExit as e:
        return int(e.code or 0)
    finally:
        sys.argv = old


def local_copy(files, tag):
    d = env.scratch_root() / f"copy_{os.getpid()}_{tag}"
    if d.exists():
        shutil.rmtree(d)
    synth.write_local(d, files)
    return d


def dir_digest(path):
    """sorted (relative path, sha256) of every file under path"""
    path = pathlib.Path(path)
    out = []
    if path.exists():
        for p in sorted(path.rglob("*")):
            if p.is_file():
                out.append((str(p.relative_to(path)), hashlib.sha256(p.read_bytes()).hexdigest()))
    return out


def listing_digest(listing):
    return sorted((k, hashlib.sha256(v).hexdigest()) for k, v in listing.items())
