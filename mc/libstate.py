"""Process-level mutable state of the library under test: snapshot / restore.

A stateless search replays prefixes; that is only sound if every execution starts from the same state.
Fresh copies of the tree take care of state kept on the array objects; this module takes care of state the
library keeps in module globals, class attributes, module-level instances of its own classes and
functools caches (handle pools, memo dicts, scratch buffers ...), which a realistic change may introduce.
"""
import collections
import functools
import sys

CONTAINERS = (dict, list, set, collections.deque, bytearray)


def _lib_modules():
    for name, mod in list(sys.modules.items()):
        if mod is not None and name.startswith("ceos_alos2") and ".tests" not in name:
            yield name, mod


def _copy(v):
    return type(v)(v) if not isinstance(v, collections.deque) else collections.deque(v, v.maxlen)


def _put_back(v, saved):
    if isinstance(v, (dict, set)):
        v.clear()
        v.update(saved)
    elif isinstance(v, bytearray):
        v[:] = saved
    else:
        v.clear()
        v.extend(saved)


class Snapshot:
    def __init__(self):
        self.containers = {}  # id -> (object, saved copy)
        self.caches = []
        self.scan(record=True)

    def _holders(self):
        """(owner description, mapping of attribute name -> value) for everything the library owns at module level"""
        for name, mod in _lib_modules():
            yield name, vars(mod)
            for k, v in list(vars(mod).items()):
                if isinstance(v, type) and getattr(v, "__module__", None) == name:
                    yield f"{name}.{k}", {a: b for a, b in vars(v).items() if not a.startswith("__")}
                elif type(v).__module__.startswith("ceos_alos2") and hasattr(v, "__dict__") and not isinstance(v, type):
                    yield f"{name}.{k}", {"__dict__": v.__dict__}

    def scan(self, record):
        fresh = []
        for owner, mapping in self._holders():
            for k, v in list(mapping.items()):
                if k.startswith("__") and k != "__dict__":
                    continue
                if isinstance(v, CONTAINERS):
                    if id(v) not in self.containers:
                        if record:
                            self.containers[id(v)] = (v, _copy(v))
                        else:
                            fresh.append(v)
                elif isinstance(v, functools._lru_cache_wrapper) and record:
                    self.caches.append(v)
                elif type(v).__name__ == "memoize" and isinstance(getattr(v, "cache", None), dict) and id(v.cache) not in self.containers and record:
                    self.containers[id(v.cache)] = (v.cache, _copy(v.cache))
        return fresh

    def restore(self):
        for v, saved in self.containers.values():
            try:
                same = v == saved
            except Exception:
                same = False
            if same is not True:
                _put_back(v, saved)
        for f in self.caches:
            f.cache_clear()
        # containers that did not exist at snapshot time (created lazily): emptied
        for v in self.scan(record=False):
            v.clear()
            self.containers[id(v)] = (v, _copy(v))
