"""E6: cooperative scheduler + preemption-bounded stateless search (C19).

Real ``threading.Thread``s, one semaphore baton each, exactly one runnable at
a time.  Yield points are whatever calls ``Sched.yield_point`` from a scheduled
thread: mcfs events (open/seek/read/close/info), acquisition of a cooperative
lock, and optionally every ``line`` event in frames of the library.
Search = iterative context bounding (Musuvathi & Qadeer): replay a prefix of
choices, take choice 0 (keep the running thread if enabled) afterwards, branch
on every alternative whose preemption count stays within the bound.
"""
import sys
import threading
import types

WATCHDOG_S = 60


class Deadlock(Exception):
    pass


class LostControl(Exception):
    """harness error: a thread did not come back to the scheduler"""


class ReplayDivergence(Exception):
    pass


class Sched:
    current = None  # the scheduler of the running execution (one at a time per process)

    def __init__(self, prefix=()):
        self.prefix = list(prefix)
        self.trace = []  # choices taken
        self.points = []  # (running tid or None, enabled tuple, running_enabled)
        self.events = []  # (tid, label) in execution order
        self.threads = {}
        self.sems = {}
        self.state = {}  # tid -> ready | blocked | done
        self.blocked_on = {}
        self.main_sem = threading.Semaphore(0)
        self.error = None
        self.exceptions = {}
        self._by_ident = {}
        self.lock_names = {}

    def spawn(self, tid, fn):
        sem = threading.Semaphore(0)
        self.sems[tid] = sem
        self.state[tid] = "ready"

        def run():
            sem.acquire()
            try:
                fn()
            except BaseException as e:  # recorded, judged by the check
                self.exceptions[tid] = e
            finally:
                self.state[tid] = "done"
                self._dispatch(tid, finished=True)

        th = threading.Thread(target=run, daemon=True, name=f"mc-{tid}")
        self.threads[tid] = th
        th.start()
        self._by_ident[th.ident] = tid

    def tid(self):
        return self._by_ident.get(threading.get_ident())

    def enabled(self):
        out = []
        for tid in sorted(self.state):
            st = self.state[tid]
            if st == "ready":
                out.append(tid)
            elif st == "blocked" and self.blocked_on[tid].locked_by is None:
                out.append(tid)
        return out

    def _choose(self, running):
        en = self.enabled()
        if not en:
            return None
        if running in en:
            en = [running] + [t for t in en if t != running]
        i = len(self.trace)
        c = self.prefix[i] if i < len(self.prefix) else 0
        if c >= len(en):
            raise ReplayDivergence(f"choice {c} at point {i} but only {len(en)} enabled")
        self.points.append((running, tuple(en), running in en))
        self.trace.append(c)
        return en[c]

    def _dispatch(self, from_tid, finished=False):
        try:
            nxt = self._choose(None if finished else from_tid)
        except ReplayDivergence as e:
            self.error = e
            self.main_sem.release()
            if not finished:
                self.sems[from_tid].acquire()  # park forever (daemon thread)
            return
        if nxt is None:
            if not all(s == "done" for s in self.state.values()):
                self.error = Deadlock({t: s for t, s in self.state.items()})
            self.main_sem.release()
            if not finished:
                self.sems[from_tid].acquire()
            return
        if nxt != from_tid:
            self.sems[nxt].release()
            if not finished:
                self.sems[from_tid].acquire()

    def yield_point(self, label=None):
        tid = self.tid()
        if tid is None:
            return
        self.events.append((tid, label))
        self._dispatch(tid)

    def run(self):
        Sched.current = self
        try:
            first = self._choose(None)
            if first is None:
                return
            self.sems[first].release()
            if not self.main_sem.acquire(timeout=WATCHDOG_S):
                raise LostControl(f"no progress for {WATCHDOG_S}s; states {self.state}")
        finally:
            Sched.current = None
        if isinstance(self.error, ReplayDivergence):
            raise self.error

    def preemptions(self):
        n = 0
        for (running, en, run_enabled), c in zip(self.points, self.trace):
            if run_enabled and c != 0:
                n += 1
        return n


class CoopLock:
    """threading.Lock stand-in the scheduler can see (blocked / enabled)"""

    def __init__(self, *a, **k):
        self.locked_by = None

    def acquire(self, blocking=True, timeout=-1):
        s = Sched.current
        tid = s.tid() if s is not None else None
        if tid is None:
            if self.locked_by is not None:
                raise LostControl("unscheduled thread blocks on a cooperative lock")
            self.locked_by = "main"
            return True
        # locks are named by the order in which an execution first touches them (addresses differ from run to run)
        s.yield_point(("lock-acquire", s.lock_names.setdefault(id(self), len(s.lock_names))))
        while self.locked_by is not None:
            if not blocking:
                return False
            s.state[tid] = "blocked"
            s.blocked_on[tid] = self
            s._dispatch(tid)
        s.state[tid] = "ready"
        self.locked_by = tid
        return True

    def release(self):
        if self.locked_by is None:
            raise RuntimeError("release unlocked lock")  # what threading.Lock does
        self.locked_by = None

    def locked(self):
        return self.locked_by is not None

    def __enter__(self):
        self.acquire()
        return self

    def __exit__(self, *a):
        self.release()


class CoopEvent:
    """threading.Event stand-in: a waiting thread is 'blocked' for the scheduler until the event is set"""

    def __init__(self):
        self._flag = False

    @property
    def locked_by(self):  # what Sched.enabled() looks at: None = whoever waits here can go on
        return None if self._flag else "unset-event"

    def is_set(self):
        return self._flag

    def set(self):
        self._flag = True

    def clear(self):
        self._flag = False

    def wait(self, timeout=None):
        s = Sched.current
        tid = s.tid() if s is not None else None
        if tid is None:
            if not self._flag:
                raise LostControl("unscheduled thread waits for a cooperative event")
            return True
        s.yield_point(("event-wait", s.lock_names.setdefault(id(self), len(s.lock_names))))
        while not self._flag:
            s.state[tid] = "blocked"
            s.blocked_on[tid] = self
            s._dispatch(tid)
        s.state[tid] = "ready"
        return True


class CoopCondition:
    """threading.Condition stand-in over a cooperative lock (waits without timeouts: a wait that nobody ends is a deadlock)"""

    def __init__(self, lock=None):
        self._lock = lock if lock is not None else CoopLock()
        self._waiters = []
        self.acquire, self.release = self._lock.acquire, self._lock.release

    def __enter__(self):
        self._lock.acquire()
        return self

    def __exit__(self, *a):
        self._lock.release()

    def wait(self, timeout=None):
        w = CoopEvent()
        self._waiters.append(w)
        self._lock.release()
        try:
            w.wait()
        finally:
            self._lock.acquire()
        return True

    def wait_for(self, predicate, timeout=None):
        while not predicate():
            self.wait()
        return True

    def notify(self, n=1):
        for w in self._waiters[:n]:
            w.set()
        del self._waiters[:n]

    def notify_all(self):
        self.notify(len(self._waiters))


def coop_future_class():
    """concurrent.futures.Future whose result() / set_result() synchronise through a cooperative condition"""
    import concurrent.futures

    class CoopFuture(concurrent.futures.Future):
        def __init__(self):
            super().__init__()
            self._condition = CoopCondition()

    return CoopFuture


def shim_namespace():
    """a stand-in for the ``threading`` module whose Lock/RLock/Event/Condition are cooperative"""
    ns = types.SimpleNamespace(**{k: getattr(threading, k) for k in dir(threading) if not k.startswith("__")})
    ns.Lock = CoopLock
    ns.RLock = CoopLock  # re-entrancy is not needed by the code under test; a re-entrant acquire shows up as deadlock
    ns.Event = CoopEvent
    ns.Condition = CoopCondition
    return ns


def line_tracer(prefix):
    """sys.settrace function yielding at every line of frames whose file starts with prefix"""

    def local(frame, event, arg):
        if event == "line":
            s = Sched.current
            if s is not None:
                s.yield_point(("line", frame.f_code.co_name, frame.f_lineno))
        return local

    def tracer(frame, event, arg):
        if frame.f_code.co_filename.startswith(prefix):
            return local
        return None

    return tracer


def explore(make, bound, check, root=(), on_execution=None):
    """DFS over schedules in the subtree of `root` with at most `bound` preemptions.

    make(sched) spawns the threads and returns a context; check(ctx, sched) judges one execution.
    -> dict(executions, decisions, max_preemptions)"""
    stack = [list(root)]
    n = decisions = maxp = 0
    while stack:
        prefix = stack.pop()
        s = Sched(prefix)
        ctx = make(s)
        s.run()
        check(ctx, s)
        n += 1
        decisions += len(s.trace)
        maxp = max(maxp, s.preemptions())
        if on_execution:
            on_execution(s)
        pre = 0
        costs = []
        for (running, en, run_enabled), c in zip(s.points, s.trace):
            costs.append(pre)
            if run_enabled and c != 0:
                pre += 1
        for i in range(len(prefix), len(s.points)):
            running, en, run_enabled = s.points[i]
            cost = costs[i] + (1 if run_enabled else 0)
            if cost > bound:
                continue
            for alt in range(1, len(en)):
                stack.append(s.trace[:i] + [alt])
    return {"executions": n, "decisions": decisions, "max_preemptions": maxp}


def children_of(make, bound, check, root=()):
    """execute `root` once; -> (stats of that execution, child prefixes partitioning the rest of its subtree)"""
    s = Sched(list(root))
    ctx = make(s)
    s.run()
    check(ctx, s)
    pre, costs = 0, []
    for (running, en, run_enabled), c in zip(s.points, s.trace):
        costs.append(pre)
        if run_enabled and c != 0:
            pre += 1
    kids = []
    for i in range(len(root), len(s.points)):
        running, en, run_enabled = s.points[i]
        cost = costs[i] + (1 if run_enabled else 0)
        if cost > bound:
            continue
        for alt in range(1, len(en)):
            kids.append(s.trace[:i] + [alt])
    return {"executions": 1, "decisions": len(s.trace), "max_preemptions": s.preemptions(), "events": list(s.events)}, kids
