"""E4: ``mcfs://`` - tracing, fault-injectable, schedulable fsspec filesystem.

Backed by in-process dicts (``STORES[store_id][path] = bytes``).  Every
operation emits an event ``(op, path, handle, offset, size)`` to ``LOG`` and to
``HOOK`` (yield point of the scheduler / decision point of fault injection).
Selecting the store through ``storage_options={"store": id}`` exercises the
"custom protocol + storage options" leg of C01/C07.
"""
import threading

import fsspec
import fsspec.asyn
from fsspec.spec import AbstractFileSystem

STORES = {}
MTIMES = {}  # (store id, path) -> modification time (seconds); advanced by every write unless the writer preserves it
SHARED = {}  # (store id, path) -> the one file object of a store opened with shared_handles=True
_clock = [1_600_000_000.0]
LOG = []
HOOK = [None]
_handle_counter = [0]
_lock = threading.Lock()


def ev(*a):
    LOG.append(a)
    h = HOOK[0]
    if h is not None:
        h(a)


def reset_log():
    del LOG[:]


def touch(store_id, path, keep_mtime=False):
    if not (keep_mtime and (store_id, path) in MTIMES):
        _clock[0] += 1.0
        MTIMES[(store_id, path)] = _clock[0]


class McFile:
    shared = False

    def __init__(self, fs, path, data):
        self.fs, self.path, self.data, self.pos, self.closed = fs, path, data, 0, False
        with _lock:
            _handle_counter[0] += 1
            self.hid = _handle_counter[0]
        ev("open", path, self.hid, 0, len(data))

    def seek(self, off, whence=0):
        ev("seek", self.path, self.hid, off, whence)
        if self.closed:
            raise ValueError("I/O operation on closed file")
        if whence == 0:
            self.pos = off
        elif whence == 1:
            self.pos += off
        else:
            self.pos = len(self.data) + off
        return self.pos

    def tell(self):
        return self.pos

    def read(self, n=-1):
        pos = self.pos
        if self.closed:
            raise ValueError("I/O operation on closed file")
        if n is None or n < 0:
            n = max(len(self.data) - pos, 0)
        ev("read", self.path, self.hid, pos, n)
        # re-read position after the yield point: another thread sharing this
        # handle may have moved it (that is exactly what C19 must expose)
        pos = self.pos
        out = self.data[pos : pos + n]
        self.pos = pos + len(out)
        return out

    def readinto(self, b):
        """file-object API used by 'read into a reusable buffer' code paths; may be short, like read()"""
        mv = memoryview(b).cast("B")
        data = self.read(len(mv))
        mv[: len(data)] = data
        return len(data)

    def readall(self):
        return self.read(-1)

    def read1(self, n=-1):
        return self.read(n)

    @property
    def name(self):
        return self.path

    mode = "rb"

    def close(self):
        if not self.closed:
            ev("close", self.path, self.hid, 0, 0)
        if not self.shared:  # like fsspec's MemoryFile, a shared file object stays usable after close()
            self.closed = True

    def __enter__(self):
        return self

    def __exit__(self, *a):
        self.close()

    def readable(self):
        return True

    def seekable(self):
        return True

    def writable(self):
        return False


class McFS(AbstractFileSystem):
    protocol = "mcfs"
    cachable = False

    def __init__(self, store="default", shared_handles=False, **kw):
        super().__init__(store=store, shared_handles=shared_handles, **kw)
        self.store_id = store
        # shared_handles=True mimics fsspec's memory filesystem: open() hands out the ONE stored file object, rewound
        self.shared_handles = shared_handles

    @property
    def store(self):
        return STORES.setdefault(self.store_id, {})

    @classmethod
    def _strip_protocol(cls, path):
        path = str(path)
        if path.startswith("mcfs://"):
            path = path[len("mcfs://") :]
        return "/" + path.strip("/") if path.strip("/") else "/"

    def info(self, path, **kw):
        p = self._strip_protocol(path)
        ev("info", p, 0, 0, 0)
        if p in self.store:
            return {"name": p, "size": len(self.store[p]), "type": "file", "mtime": MTIMES.get((self.store_id, p), 1_600_000_000.0), "created": 1_600_000_000.0}
        if any(k.startswith(p.rstrip("/") + "/") for k in self.store):
            return {"name": p, "size": 0, "type": "directory"}
        raise FileNotFoundError(p)

    def ls(self, path, detail=True, **kw):
        p = self._strip_protocol(path).rstrip("/") + "/"
        ev("ls", p, 0, 0, 0)
        names = sorted({p + k[len(p) :].split("/")[0] for k in self.store if k.startswith(p)})
        return [self.info(n) for n in names] if detail else names

    def _open(self, path, mode="rb", **kw):
        p = self._strip_protocol(path)
        if "r" in mode:
            if p not in self.store:
                ev("open-missing", p, 0, 0, 0)
                raise FileNotFoundError(p)
            if self.shared_handles:
                f = SHARED.get((self.store_id, p))
                if f is None or f.data is not self.store[p]:
                    f = SHARED[(self.store_id, p)] = McFile(self, p, self.store[p])
                    f.shared = True
                else:
                    ev("open", p, f.hid, 0, len(f.data))
                f.pos = 0
                return f
            return McFile(self, p, self.store[p])
        raise NotImplementedError(mode)

    def modified(self, path):
        import datetime

        return datetime.datetime.fromtimestamp(self.info(path)["mtime"], tz=datetime.timezone.utc)

    def created(self, path):
        import datetime

        return datetime.datetime.fromtimestamp(self.info(path)["created"], tz=datetime.timezone.utc)

    def pipe_file(self, path, value, **kw):
        self.store[self._strip_protocol(path)] = bytes(value)
        touch(self.store_id, self._strip_protocol(path))

    def rm_file(self, path):
        del self.store[self._strip_protocol(path)]

    def cat_file(self, path, start=None, end=None, **kw):
        with self.open(path, "rb") as f:
            if start:
                f.seek(start)
            return f.read(-1 if end is None else end - (start or 0))


class AMcFS(fsspec.asyn.AsyncFileSystem):
    """the same stores behind an ASYNC fsspec implementation (async_impl is True, like http / s3 / gcs): code that takes
    another path for such filesystems (cat_ranges, concurrent fetches) is exercised; events are logged like McFS'"""

    protocol = "amcfs"
    cachable = False

    def __init__(self, store="default", **kw):
        super().__init__(store=store, **kw)
        self.store_id = store

    @property
    def store(self):
        return STORES.setdefault(self.store_id, {})

    @classmethod
    def _strip_protocol(cls, path):
        path = str(path)
        if path.startswith("amcfs://"):
            path = path[len("amcfs://") :]
        return "/" + path.strip("/") if path.strip("/") else "/"

    async def _info(self, path, **kw):
        p = self._strip_protocol(path)
        ev("info", p, 0, 0, 0)
        if p in self.store:
            return {"name": p, "size": len(self.store[p]), "type": "file", "mtime": MTIMES.get((self.store_id, p), 1_600_000_000.0)}
        if any(k.startswith(p.rstrip("/") + "/") for k in self.store):
            return {"name": p, "size": 0, "type": "directory"}
        raise FileNotFoundError(p)

    async def _ls(self, path, detail=True, **kw):
        p = self._strip_protocol(path).rstrip("/") + "/"
        ev("ls", p, 0, 0, 0)
        names = sorted({p + k[len(p) :].split("/")[0] for k in self.store if k.startswith(p)})
        return [await self._info(n) for n in names] if detail else names

    async def _cat_file(self, path, start=None, end=None, **kw):
        p = self._strip_protocol(path)
        if p not in self.store:
            ev("open-missing", p, 0, 0, 0)
            raise FileNotFoundError(p)
        data = self.store[p]
        n = len(data)
        a = 0 if start is None else (start if start >= 0 else max(n + start, 0))
        b = n if end is None else (end if end >= 0 else max(n + end, 0))
        with _lock:
            _handle_counter[0] += 1
            hid = _handle_counter[0]
        ev("open", p, hid, 0, n)
        ev("read", p, hid, a, max(b - a, 0))
        ev("close", p, hid, 0, 0)
        return data[a:b]

    async def _pipe_file(self, path, value, **kw):
        self.store[self._strip_protocol(path)] = bytes(value)
        touch(self.store_id, self._strip_protocol(path))

    async def _rm_file(self, path, **kw):
        del self.store[self._strip_protocol(path)]

    def _open(self, path, mode="rb", **kw):
        p = self._strip_protocol(path)
        if "r" in mode:
            if p not in self.store:
                ev("open-missing", p, 0, 0, 0)
                raise FileNotFoundError(p)
            return McFile(self, p, self.store[p])
        raise NotImplementedError(mode)


class McLocalFile:
    """a real OS-level file of the local filesystem whose open / seek / read / close are events (and yield points)"""

    def __init__(self, path):
        import io

        self.path = path
        self.f = io.open(path, "rb")
        with _lock:
            _handle_counter[0] += 1
            self.hid = _handle_counter[0]
        ev("open", path, self.hid, 0, 0)

    def seek(self, off, whence=0):
        ev("seek", self.path, self.hid, off, whence)
        return self.f.seek(off, whence)

    def tell(self):
        return self.f.tell()

    def read(self, n=-1):
        ev("read", self.path, self.hid, self.f.tell() if not self.f.closed else -1, -1 if n is None else n)
        return self.f.read(-1 if n is None else n)

    def readinto(self, b):
        ev("read", self.path, self.hid, self.f.tell() if not self.f.closed else -1, len(memoryview(b).cast("B")))
        return self.f.readinto(b)

    def readall(self):
        return self.read(-1)

    def read1(self, n=-1):
        return self.read(n)

    @property
    def name(self):
        return self.path

    @property
    def closed(self):
        return self.f.closed

    mode = "rb"

    def close(self):
        if not self.f.closed:
            ev("close", self.path, self.hid, 0, 0)
        self.f.close()

    def __enter__(self):
        return self

    def __exit__(self, *a):
        self.close()

    def readable(self):
        return True

    def seekable(self):
        return True

    def writable(self):
        return False

    def fileno(self):
        return self.f.fileno()


from fsspec.implementations.local import LocalFileSystem  # noqa: E402


class McLocalFS(LocalFileSystem):
    """``mclocal://``: fsspec's own local filesystem (``local_file`` is true, an instance of LocalFileSystem), except that binary
    reads go through McLocalFile, so that loads from a LOCAL product have yield points / a trace like those from mcfs://"""

    protocol = "mclocal"
    cachable = False

    def _open(self, path, mode="rb", block_size=None, **kwargs):
        if mode == "rb":
            return McLocalFile(self._strip_protocol(path))
        return super()._open(path, mode=mode, block_size=block_size, **kwargs)


def register():
    fsspec.register_implementation("mclocal", McLocalFS, clobber=True)
    fsspec.register_implementation("mcfs", McFS, clobber=True)
    fsspec.register_implementation("amcfs", AMcFS, clobber=True)


def put_product(store_id, root, files):
    st = STORES.setdefault(store_id, {})
    root = "/" + root.strip("/")
    for k, v in files.items():
        st[f"{root}/{k}"] = bytes(v)
        touch(store_id, f"{root}/{k}")


def drop_store(store_id):
    STORES.pop(store_id, None)
    for d in (MTIMES, SHARED):
        for k in [k for k in d if k[0] == store_id]:
            del d[k]


register()
