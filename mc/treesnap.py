"""E2 (part): canonical snapshot of a DataTree as flat *leaves*, and diffs.

leaf keys:
  ``<path>@<attr>``            attribute            -> ("attr", canonical value)
  ``<path>:<var>#meta``        variable metadata    -> (role, dims, dtype, shape, attrs, encoding)
  ``<path>:<var>#bytes``       variable content     -> sha1 of native-endian bytes (plus the bytes if small)
  ``<path>#children``          ordered child names
Values are compared through bytes so NaN payloads and the sign of zero count.
"""
import hashlib

import numpy as np


def canon(v):
    """Canonical, type-aware, JSON-able form of an attribute value."""
    if isinstance(v, (bool, np.bool_)):
        return ["bool", bool(v)]
    if isinstance(v, (int, np.integer)):
        return ["int", int(v)]
    if isinstance(v, (float, np.floating)):
        f = float(v)
        return ["float", f.hex() if f == f else "nan"]
    if isinstance(v, (complex, np.complexfloating)):
        return ["complex", canon(v.real)[1], canon(v.imag)[1]]
    if isinstance(v, str):
        return ["str", v]
    if isinstance(v, bytes):
        return ["bytes", v.hex()]
    if isinstance(v, tuple):
        return ["tuple", [canon(x) for x in v]]
    if isinstance(v, list):
        return ["list", [canon(x) for x in v]]
    if isinstance(v, np.ndarray):
        return ["ndarray", str(v.dtype), list(v.shape), [canon(x) for x in v.reshape(-1).tolist()]]
    if isinstance(v, dict):
        return ["dict", {str(k): canon(x) for k, x in v.items()}]
    if v is None:
        return ["none"]
    return ["opaque", type(v).__name__, repr(v)[:200]]


def native_bytes(arr):
    arr = np.asarray(arr)
    if arr.dtype == object:
        return repr(arr.tolist()).encode()
    if arr.dtype.kind in "US":
        return repr(arr.tolist()).encode()
    a = np.ascontiguousarray(arr.astype(arr.dtype.newbyteorder("="), copy=False))
    return a.tobytes()


def snapshot(tree, load=True, with_bytes=True):
    out = {}
    for node in tree.subtree:
        p = node.path
        out[f"{p}#children"] = ("children", list(node.children))
        for k, v in node.attrs.items():
            out[f"{p}@{k}"] = ("attr", canon(v))
        ds = node.to_dataset(inherit=False)
        out[f"{p}#vars"] = ("vars", sorted(map(str, ds.variables)))
        for name, var in ds.variables.items():
            role = "coord" if name in ds.coords else "var"
            dt = var.dtype
            enc = {k: canon(v) for k, v in sorted(var.encoding.items())}
            out[f"{p}:{name}#meta"] = (
                role,
                list(var.dims),
                str(dt),
                list(var.shape),
                {k: canon(v) for k, v in sorted(var.attrs.items())},
                enc,
            )
            if load:
                vals = np.asarray(var.values)
                b = native_bytes(vals)
                out[f"{p}:{name}#bytes"] = (
                    "bytes",
                    str(vals.dtype.newbyteorder("=")) if vals.dtype != object else "object",
                    list(vals.shape),
                    hashlib.sha1(b).hexdigest(),
                    b.hex() if with_bytes and len(b) <= 256 else None,
                )
    return out


def diff(a, b, ignore=()):
    """list of (leaf, a-value, b-value) that differ; ignore = leaf-key predicates"""
    out = []
    for k in sorted(set(a) | set(b)):
        if any(pred(k) for pred in ignore):
            continue
        va, vb = a.get(k), b.get(k)
        if va != vb:
            out.append((k, va, vb))
    return out


def strip_encoding(snap):
    """copy of snap with the encoding component of #meta leaves removed"""
    out = {}
    for k, v in snap.items():
        if k.endswith("#meta"):
            out[k] = v[:5]
        else:
            out[k] = v
    return out


def sort_children(snap):
    out = {}
    for k, v in snap.items():
        if k.endswith("#children"):
            out[k] = (v[0], sorted(v[1]))
        else:
            out[k] = v
    return out


def short(d, n=6):
    return "; ".join(f"{k}: {str(a)[:120]} != {str(b)[:120]}" for k, a, b in d[:n]) + (
        f" (+{len(d) - n} more)" if len(d) > n else ""
    )
