"""Model-checking machinery for xarray-ceos-alos2 (see /verif/DESIGN.md).

Nothing in this package imports ``ceos_alos2`` at module import time: the
library is imported lazily inside workers, after the environment (private
``XDG_CACHE_HOME``, optional ``VERIF_REPO``) has been set up, see ``mc.env``.
"""
