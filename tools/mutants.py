"""Internal kill matrix: apply hand-written, realistic property-breaking edits
(the 'Mutants' lines of DESIGN §4) to a scratch copy of /repo, make sure the
repository's own tests still pass, and run the named checks against the copy
(VERIF_REPO).  Independent seeded changes from sub-agents live in /verif/seeded.

usage: python3 tools/mutants.py [-k substring] [--tier quick] [--no-tests]
"""
import argparse
import json
import os
import pathlib
import shutil
import subprocess
import sys
import tempfile
import time

VERIF = pathlib.Path(__file__).resolve().parent.parent

# (name, relative file, old, new, [checks expected to flag it])
MUTANTS = [
    ("img-prefix-offset", "ceos_alos2/sar_image/io.py", "offset * record_size + 720 for offset", "offset * record_size + 719 for offset", ["C01"]),
    ("realimag-swap", "ceos_alos2/array.py", 'data.real = raw["real"]\n        data.imag = raw["imag"]', 'data.real = raw["imag"]\n        data.imag = raw["real"]', ["C01"]),
    ("little-endian-f4", "ceos_alos2/array.py", '("real", ">f4"), ("imag", ">f4")', '("real", "<f4"), ("imag", "<f4")', ["C01"]),
    ("groupby-off-by-one", "ceos_alos2/array.py", "lambda it: it[0] // chunksize", "lambda it: (it[0] + 1) // chunksize", ["C02", "C01", "C11"]),
    ("drop-column-indexer", "ceos_alos2/array.py", "new_indexers = tuple(cons(rows, indexers[1:]))", "new_indexers = (rows,)", ["C02"]),
    ("read-whole-file", "ceos_alos2/array.py", "    f.seek(offset)\n\n    return f.read(size)", "    f.seek(0)\n\n    return f.read()[offset : offset + size]", ["C11"]),
    ("partial-chunk-lt", "ceos_alos2/sar_image/io.py", "if records_per_chunk * (index + 1) <= n_records", "if records_per_chunk * (index + 1) < n_records", ["C06", "C01", "C11"]),
    ("normalize-chunksize-ge", "ceos_alos2/array.py", "or chunksize > dim_size:", "or chunksize >= dim_size - 1:", ["C06"]),
    ("size-check-removed", "ceos_alos2/sar_image/io.py", "    if n_elements * element_size != len(content):", "    if False:", ["C18"]),
    ("ds-factor", "ceos_alos2/sar_leader/dataset_summary.py", 'Factor(AsciiFloat(16), 1e-14), units="m^3 / s^2"', 'Factor(AsciiFloat(16), 1e-13), units="m^3 / s^2"', ["C04"]),
    ("ds-unit", "ceos_alos2/sar_leader/dataset_summary.py", '"nominal_radar_wavelength" / Metadata(AsciiFloat(16), units="m")', '"nominal_radar_wavelength" / Metadata(AsciiFloat(16), units="cm")', ["C04"]),
    ("mp-swap-fields", "ceos_alos2/sar_leader/map_projection.py", '"semimajor_axis" / Metadata(AsciiFloat(16), units="m"),\n        "semiminor_axis" / Metadata(AsciiFloat(16), units="m"),', '"semiminor_axis" / Metadata(AsciiFloat(16), units="m"),\n        "semimajor_axis" / Metadata(AsciiFloat(16), units="m"),', ["C04"]),
    ("rad-matrix-order", "ceos_alos2/sar_leader/radiometric_data.py", "matrix = list(map(list, partition(2, values)))", "matrix = list(map(list, zip(*partition(2, values))))", ["C04"]),
    ("att-pad", "ceos_alos2/sar_leader/attitude.py", "(12 + 4 + this.number_of_points * 120)", "(12 + this.number_of_points * 120)", ["C05", "C04"]),
    ("dq-pad", "ceos_alos2/sar_leader/data_quality_summary.py", "PaddedString(512 - this._.number_of_channels * 32)", "PaddedString(512 - this._.number_of_channels * 16)", ["C05", "C04"]),
    ("fac-pad", "ceos_alos2/sar_leader/facility_related_data.py", "this.preamble.record_length - 12 - 4 - 50", "this.preamble.record_length - 12 - 4 - 46", ["C05", "C04"]),
    ("trl-pad", "ceos_alos2/sar_trailer/file_descriptor.py", "720 - 522 - this.number_of_low_resolution_images", "720 - 516 - this.number_of_low_resolution_images", ["C05"]),
    ("line-factor", "ceos_alos2/sar_image/processed_data.py", '"line_heading" / Metadata(Factor(Int32ub, 1e-6), units="deg")', '"line_heading" / Metadata(Factor(Int32ub, 1e-3), units="deg")', ["C03"]),
    ("line-swap", "ceos_alos2/sar_image/processed_data.py", '"slant_range_to_first_pixel" / Metadata(Int32ub, units="m"),\n    "slant_range_to_mid_pixel" / Metadata(Int32ub, units="m"),', '"slant_range_to_mid_pixel" / Metadata(Int32ub, units="m"),\n    "slant_range_to_first_pixel" / Metadata(Int32ub, units="m"),', ["C03"]),
    ("dedup-last", "ceos_alos2/sar_image/metadata.py", "valmap(compose_left(second, first), attrs)", "valmap(compose_left(second, lambda v: v[-1]), attrs)", []),
    ("ydms-doy", "ceos_alos2/datatypes.py", 'days=obj["day_of_year"] - 1, milliseconds', 'days=obj["day_of_year"], milliseconds', ["C17", "C03"]),
    ("groupname-drop-scan", "ceos_alos2/sar_image/__init__.py", 'parts = [polarization, scan_number]', 'parts = [polarization, None]', ["C13"]),
    ("coords-not-popped", "ceos_alos2/xarray.py", 'coords = ds.attrs.pop("coordinates", [])', 'coords = ds.attrs.get("coordinates", [])', ["C13"]),
    ("summary-search", "ceos_alos2/summary.py", "match = entry_re.fullmatch(line)", "match = entry_re.match(line)", ["C14"]),
    ("summary-first-error", "ceos_alos2/summary.py", "            errors[lineno] = e\n", "            errors[lineno] = e\n            break\n", ["C14"]),
    ("pid-regex-narrow", "ceos_alos2/decoders.py", "(?P<processing_option>[GR_])", "(?P<processing_option>[GR])", ["C15"]),
    ("vol-rename", "ceos_alos2/volume_directory/metadata.py", '"logical_volume_generating_agency": "creation_agency"', '"logical_volume_generating_agency": "creation_facility"', ["C16"]),
    ("vol-width", "ceos_alos2/volume_directory/structure.py", '"physical_volume_id" / PaddedString(16),\n    "logical_volume_id" / PaddedString(16),', '"physical_volume_id" / PaddedString(15),\n    "logical_volume_id" / PaddedString(17),', ["C16"]),
    ("blank-int-zero", "ceos_alos2/datatypes.py", "        if not stripped:\n            return -1\n        return int(stripped)", "        if not stripped:\n            return 0\n        return int(stripped)", ["C20"]),
    ("spares-kept", "ceos_alos2/transformers.py", 'if not k.startswith(("spare", "blanks")):', 'if not k.startswith(("spare",)):', ["C20"]),
    ("cache-keeps-rpc", "ceos_alos2/sar_image/caching/decoders.py", "        records_per_chunk=records_per_chunk,\n    )\n\n\ndef decode_variable", "        records_per_chunk=None,\n    )\n\n\ndef decode_variable", ["C07", "C06"]),
    ("use-cache-false-ignored", "ceos_alos2/sar_image/__init__.py", "    if use_cache:\n        try:", "    if True:\n        try:", ["C07", "C10"]),
    ("json-error-escapes", "ceos_alos2/sar_image/caching/__init__.py", "except (ValueError, KeyError, TypeError, AttributeError) as e:", "except (KeyError, TypeError, AttributeError) as e:", ["C09"]),
    ("options-mutated", "ceos_alos2/xarray.py", "    root = io.open(path, **backend_options)", '    backend_options.setdefault("records_per_chunk", 1024)\n    root = io.open(path, **backend_options)', ["C10"]),
    ("tuple-tag-dropped", "ceos_alos2/sar_image/caching/encoders.py", '        return {"__type__": "tuple", "data": list(map(preprocess, data))}', "        return list(map(preprocess, data))", ["C08"]),
    ("datetime-float-offsets", "ceos_alos2/sar_image/caching/encoders.py", 'encoded = (obj - reference).astype("int64").tolist()', 'encoded = ((obj - reference) / np.timedelta64(1, units)).tolist()', ["C08"]),
    ("decoder-wrong-fs", "ceos_alos2/sar_image/caching/decoders.py", 'if fs is None or "://" in root:', "if True:", ["C07"]),
    ("lookup-ignores-adjacent", "ceos_alos2/sar_image/caching/__init__.py", "    if remote in mapper:", "    if False:", ["C07"]),
    ("cache-written-unasked", "ceos_alos2/sar_image/__init__.py", "    if create_cache:\n        caching.create_cache", "    if create_cache or use_cache:\n        caching.create_cache", ["C10"]),
    ("dtype-as-string-again", "ceos_alos2/xarray.py", "self.dtype = np.dtype(array.dtype)", "self.dtype = array.dtype", ["C12"]),
]


def sh(cmd, **kw):
    return subprocess.run(cmd, shell=True, capture_output=True, text=True, **kw)


def main():
    ap = argparse.ArgumentParser()
    ap.add_argument("-k", default="")
    ap.add_argument("--tier", default="quick")
    ap.add_argument("--no-tests", action="store_true")
    ap.add_argument("--checks", default="", help="comma list overriding the expected checks")
    args = ap.parse_args()
    scratch = pathlib.Path(tempfile.mkdtemp(prefix="mutrepo-"))
    try:
        sh(f"rsync -a --exclude .git /repo/ {scratch}/")
        rows = []
        for name, rel, old, new, checks in MUTANTS:
            if args.k and args.k not in name:
                continue
            if args.checks:
                checks = args.checks.split(",")
            avail = [c for c in checks if (VERIF / "mc" / "checks" / f"{c.lower()}.py").exists()]
            p = scratch / rel
            src = p.read_text()
            if src.count(old) != 1:
                rows.append((name, "PATTERN-NOT-FOUND", "", ""))
                print(name, "PATTERN-NOT-FOUND", src.count(old))
                continue
            p.write_text(src.replace(old, new))
            try:
                tests = "skipped"
                if not args.no_tests:
                    r = sh(f"cd {scratch} && /venv/bin/python -m pytest -q -p no:cacheprovider -x -n 8 2>&1 | tail -1")
                    tests = "pass" if ("1212 passed" in r.stdout or " passed" in r.stdout and "11 failed" in r.stdout) else "FAIL:" + r.stdout.strip()[-60:]
                    r = sh(f"cd {scratch} && /venv/bin/python -m pytest -q -p no:cacheprovider 2>&1 | tail -1")
                    tests = "pass" if "1212 passed" in r.stdout else "FAIL:" + r.stdout.strip()[-60:]
                res = {}
                for c in avail:
                    t0 = time.time()
                    r = sh(f"cd {VERIF} && VERIF_REPO={scratch} ./run {c} --tier {args.tier}", env={**os.environ, "VERIF_EVIDENCE_DIR": str(scratch / ".evidence"), "VERIF_REPLAY_DIR": str(scratch / ".replays")})
                    flagged = "VIOLATION" in r.stdout
                    res[c] = ("FLAGGED" if flagged else ("HARNESS-ERROR" if r.returncode == 2 else "silent")) + f"({time.time() - t0:.0f}s)"
                rows.append((name, tests, res, [c for c in checks if c not in avail]))
                print(name, "tests=" + tests, res, "not-built:" + ",".join(c for c in checks if c not in avail), flush=True)
            finally:
                p.write_text(src)
    finally:
        shutil.rmtree(scratch, ignore_errors=True)


if __name__ == "__main__":
    main()
