"""Confirm a seeded property-breaking change and run checks against it.

usage: python3 tools/seed_eval.py <name> <source dir with patch.diff + demo.py [+ NOTES.md]> <property id> [--checks C01,C06|all] [--tier quick]

Everything is confirmed in a fresh scratch worktree of /repo's HEAD (outside /repo and /verif):
  1. demo without the patch must exit 0;
  2. the patch must apply; the repository's own tests must still pass (1212 passed);
  3. demo with the patch must exit non-zero;
  4. the named checks are run against the patched copy (VERIF_REPO) - FLAGGED / silent is recorded.
The change is kept as /verif/seeded/<name>/ (patch.diff, demo.py, NOTES.md, meta.json).  Nothing is ever committed to /repo.
"""
import argparse
import json
import os
import pathlib
import shutil
import subprocess
import sys
import tempfile
import time

VERIF = pathlib.Path(__file__).resolve().parent.parent
ALL = [f"C{i:02d}" for i in range(1, 21)]


def sh(cmd, cwd=None, env=None, timeout=3600):
    r = subprocess.run(cmd, shell=True, capture_output=True, text=True, cwd=cwd, env=env, timeout=timeout)
    return r.returncode, r.stdout + r.stderr


def main():
    ap = argparse.ArgumentParser()
    ap.add_argument("name")
    ap.add_argument("source")
    ap.add_argument("property")
    ap.add_argument("--checks", default="")
    ap.add_argument("--tier", default="quick")
    ap.add_argument("--needs", default="")
    ap.add_argument("--base", default="HEAD", help="commit of /repo the change was written against (default HEAD)")
    args = ap.parse_args()
    src = pathlib.Path(args.source)
    patch = (src / "patch.diff").read_text()
    demo = (src / "demo.py").read_text()
    notes = (src / "NOTES.md").read_text() if (src / "NOTES.md").exists() else ""
    checks = ALL if args.checks == "all" else [c for c in (args.checks.split(",") if args.checks else [args.property]) if c]
    wt = pathlib.Path(tempfile.mkdtemp(prefix="seedeval-"))
    wt.rmdir()
    meta = {"name": args.name, "breaks": args.property, "needs_to_manifest": args.needs, "confirmed": {}, "checks": {}}
    code, out = sh(f"git -C /repo worktree add --detach {wt} {args.base} -q")
    meta["base"] = args.base
    assert code == 0, out
    try:
        env = {**os.environ, "PYTHONPATH": str(wt), "PYTHONHASHSEED": "0"}
        (wt / "demo.py").write_text(demo)
        code, out = sh("/venv/bin/python demo.py", cwd=wt, env=env, timeout=600)
        meta["confirmed"]["demo_without_change_exit"] = code
        (wt / "_patch.diff").write_text(patch)
        code, out = sh("git apply --whitespace=nowarn _patch.diff", cwd=wt)
        meta["confirmed"]["patch_applies"] = code == 0
        if code != 0:
            print("PATCH DOES NOT APPLY:", out[-500:])
        else:
            code, out = sh("/venv/bin/python -m pytest -q -p no:cacheprovider 2>&1 | tail -1", cwd=wt, env=env)
            meta["confirmed"]["test_suite_tail"] = out.strip()[-120:]
            meta["confirmed"]["test_suite_passes"] = "1212 passed" in out and "11 failed" in out
            code, out = sh("/venv/bin/python demo.py", cwd=wt, env=env, timeout=600)
            meta["confirmed"]["demo_with_change_exit"] = code
            meta["confirmed"]["demo_with_change_tail"] = out.strip()[-300:]
            for c in checks:
                t0 = time.time()
                e = {**os.environ, "VERIF_REPO": str(wt), "VERIF_EVIDENCE_DIR": str(wt / ".evidence"), "VERIF_REPLAY_DIR": str(wt / ".replays")}
                code, out = sh(f"{VERIF}/run {c} --tier {args.tier}", env=e)
                first = next((l for l in out.splitlines() if l.startswith("  ")), "")
                sigs = [l.strip() for l in out.splitlines() if " x {" in l][:4]
                meta["checks"][c] = {
                    "result": "FLAGGED" if "VIOLATION" in out else ("HARNESS-ERROR" if code == 2 else "silent"),
                    "exit": code,
                    "wall_s": round(time.time() - t0, 1),
                    "first_violation": first.strip()[:300],
                    "signature_classes": sigs,
                }
                print(args.name, c, meta["checks"][c]["result"], f"{time.time() - t0:.0f}s", first.strip()[:160], flush=True)
        meta["valid"] = bool(
            meta["confirmed"].get("demo_without_change_exit") == 0
            and meta["confirmed"].get("patch_applies")
            and meta["confirmed"].get("test_suite_passes")
            and meta["confirmed"].get("demo_with_change_exit", 0) != 0
        )
        meta["ran"] = f"tools/seed_eval.py {args.name} <worktree> {args.property} --checks {args.checks or args.property} --tier {args.tier} (repo HEAD {sh('git -C /repo rev-parse --short HEAD')[1].strip()})"
        dest = VERIF / "seeded" / args.name
        if dest.exists():
            old = json.loads((dest / "meta.json").read_text()) if (dest / "meta.json").exists() else {}
            merged = old.get("checks", {})
            merged.update(meta["checks"])
            meta["checks"] = merged
            if not meta["needs_to_manifest"]:
                meta["needs_to_manifest"] = old.get("needs_to_manifest", "")
        dest.mkdir(parents=True, exist_ok=True)
        (dest / "patch.diff").write_text(patch)
        (dest / "demo.py").write_text(demo)
        if notes:
            (dest / "NOTES.md").write_text(notes)
        (dest / "meta.json").write_text(json.dumps(meta, indent=1) + "\n")
        print(args.name, "valid" if meta["valid"] else "INVALID", json.dumps(meta["confirmed"])[:400])
    finally:
        sh(f"git -C /repo worktree remove --force {wt}")
        shutil.rmtree(wt, ignore_errors=True)


if __name__ == "__main__":
    main()
