"""Re-run every kept seeded change against the checks that flagged it (and its own property's check) and report
any that is no longer flagged.  usage: python3 tools/seed_regress.py [-k substring] [--tier quick]"""
import argparse
import json
import os
import pathlib
import subprocess
import tempfile
import time

VERIF = pathlib.Path(__file__).resolve().parent.parent


def sh(cmd, **kw):
    return subprocess.run(cmd, shell=True, capture_output=True, text=True, **kw)


def main():
    ap = argparse.ArgumentParser()
    ap.add_argument("-k", default="")
    ap.add_argument("--tier", default="quick")
    args = ap.parse_args()
    lost = []
    for d in sorted((VERIF / "seeded").iterdir()):
        if args.k and args.k not in d.name:
            continue
        meta = json.loads((d / "meta.json").read_text())
        want = sorted({c for c, r in meta["checks"].items() if r["result"] == "FLAGGED"})
        if not want:
            print(d.name, "never flagged (documented)", flush=True)
            continue
        wt = pathlib.Path(tempfile.mkdtemp(prefix="seedreg-"))
        wt.rmdir()
        base = meta.get("base", "HEAD")
        assert sh(f"git -C /repo worktree add --detach {wt} {base} -q").returncode == 0
        try:
            assert sh(f"git apply --whitespace=nowarn {d / 'patch.diff'}", cwd=wt).returncode == 0, d.name
            # one flagging check is enough for detection; prefer the property's own check
            order = [c for c in want if c == meta["breaks"]] + [c for c in want if c != meta["breaks"]]
            got = None
            for c in order[:2]:
                t0 = time.time()
                e = {**os.environ, "VERIF_REPO": str(wt), "VERIF_EVIDENCE_DIR": str(wt / ".evidence"), "VERIF_REPLAY_DIR": str(wt / ".replays")}
                r = sh(f"{VERIF}/run {c} --tier {args.tier}", env=e)
                res = "FLAGGED" if "VIOLATION" in r.stdout else ("HARNESS-ERROR" if r.returncode == 2 else "silent")
                print(d.name, c, res, f"{time.time() - t0:.0f}s", flush=True)
                if res == "FLAGGED":
                    got = c
                    break
            if got is None:
                lost.append(d.name)
        finally:
            sh(f"git -C /repo worktree remove --force {wt}")
    print("no longer flagged:", lost)


if __name__ == "__main__":
    main()
