#!/bin/sh
# run every check's quick (default) or thorough tier in /verif against /repo; summary lines only
tier=${1:-quick}
cd "$(dirname "$0")/.."
for c in C01 C02 C03 C04 C05 C06 C07 C08 C09 C10 C11 C12 C13 C14 C15 C16 C17 C18 C19 C20; do
  ./run $c --tier $tier 2>&1 | grep -E "tier=|^VIOLATION|HARNESS" | cut -c1-230
done
