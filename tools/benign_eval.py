"""Evaluate an independently written property-PRESERVING change: apply it to a scratch worktree of /repo, confirm the
repository's tests still pass, run every check's quick tier against it and record which (if any) raise an alarm.
usage: python3 tools/benign_eval.py <name> <dir with patch.diff [+ NOTES.md]> [--checks C01,C02|all] [--out DIR]
Kept as <out or /verif/benign>/<name>/ (patch.diff, NOTES.md, meta.json)."""
import argparse
import json
import os
import pathlib
import shutil
import subprocess
import tempfile
import time

VERIF = pathlib.Path(__file__).resolve().parent.parent
ALL = [f"C{i:02d}" for i in range(1, 21)]


def sh(cmd, cwd=None, env=None, timeout=7200):
    r = subprocess.run(cmd, shell=True, capture_output=True, text=True, cwd=cwd, env=env, timeout=timeout)
    return r.returncode, r.stdout + r.stderr


def main():
    ap = argparse.ArgumentParser()
    ap.add_argument("name")
    ap.add_argument("source")
    ap.add_argument("--checks", default="all")
    ap.add_argument("--out", default=str(VERIF / "benign"))
    args = ap.parse_args()
    src = pathlib.Path(args.source)
    patch = (src / "patch.diff").read_text()
    notes = (src / "NOTES.md").read_text() if (src / "NOTES.md").exists() else ""
    checks = ALL if args.checks == "all" else args.checks.split(",")
    wt = pathlib.Path(tempfile.mkdtemp(prefix="bneval-"))
    wt.rmdir()
    meta = {"name": args.name, "checks": {}}
    code, out = sh(f"git -C /repo worktree add --detach {wt} HEAD -q")
    assert code == 0, out
    try:
        (wt / "_patch.diff").write_text(patch)
        code, out = sh("git apply --whitespace=nowarn _patch.diff", cwd=wt)
        meta["patch_applies"] = code == 0
        if code == 0:
            env = {**os.environ, "PYTHONPATH": str(wt), "PYTHONHASHSEED": "0"}
            code, out = sh("/venv/bin/python -m pytest -q -p no:cacheprovider 2>&1 | tail -1", cwd=wt, env=env)
            meta["test_suite_tail"] = out.strip()[-120:]
            meta["test_suite_passes"] = "1212 passed" in out and "11 failed" in out
            for c in checks:
                t0 = time.time()
                e = {**os.environ, "VERIF_REPO": str(wt), "VERIF_EVIDENCE_DIR": str(wt / ".evidence"), "VERIF_REPLAY_DIR": str(wt / ".replays")}
                code, out = sh(f"{VERIF}/run {c} --tier quick", env=e)
                res = "ALARM" if "VIOLATION" in out else ("HARNESS-ERROR" if code == 2 else "silent")
                first = next((l for l in out.splitlines() if l.startswith("  ")), "") if res != "silent" else ""
                if res == "HARNESS-ERROR":
                    first = out.strip()[-400:]
                meta["checks"][c] = {"result": res, "wall_s": round(time.time() - t0, 1), "first": first.strip()[:400]}
                print(args.name, c, res, f"{time.time() - t0:.0f}s", first.strip()[:200], flush=True)
        dest = pathlib.Path(args.out) / args.name
        dest.mkdir(parents=True, exist_ok=True)
        (dest / "patch.diff").write_text(patch)
        if notes:
            (dest / "NOTES.md").write_text(notes)
        (dest / "meta.json").write_text(json.dumps(meta, indent=1) + "\n")
        alarms = [c for c, r in meta["checks"].items() if r["result"] != "silent"]
        print(args.name, "tests", "pass" if meta.get("test_suite_passes") else "FAIL " + meta.get("test_suite_tail", ""), "alarms:", alarms, flush=True)
    finally:
        sh(f"git -C /repo worktree remove --force {wt}")
        shutil.rmtree(wt, ignore_errors=True)


if __name__ == "__main__":
    main()
