"""One-off provenance tool (NOT used by any check): walk the construct structs
of the pinned tree and write flat layout tables with absolute offsets into
mc/layout/*.json.  The tables were then frozen and reviewed by hand; the checks
only ever read the JSON, never the structs.  Re-running this tool against a
modified /repo would defeat the purpose - do not do that.
"""
import json
import pathlib
import sys

import construct as C

from ceos_alos2 import datatypes as D
from ceos_alos2.sar_image import enums as E

OUT = pathlib.Path(__file__).resolve().parent.parent / "mc" / "layout"


def kind_of(sc):
    if isinstance(sc, C.Renamed):
        return kind_of(sc.subcon)
    if isinstance(sc, D.Metadata):
        k = kind_of(sc.subcon)
        if k is None:
            return None
        return (k[0], k[1], {**k[2], "attrs": dict(sc.attrs)})
    if isinstance(sc, D.Factor):
        k = kind_of(sc.subcon)
        return (k[0], k[1], {**k[2], "factor": sc.factor})
    if isinstance(sc, D.AsciiInteger):
        return ("I", sc.subcon.sizeof(), {})
    if isinstance(sc, D.AsciiFloat):
        return ("F", sc.subcon.sizeof(), {})
    if isinstance(sc, D.AsciiComplex):
        return ("C", sc.subcon.sizeof(), {})
    if isinstance(sc, D.PaddedString):
        try:
            return ("A", sc.subcon.sizeof(), {})
        except Exception:
            return ("A", None, {"dynamic": True})
    if isinstance(sc, D.StripNullBytes):
        return ("X", sc.subcon.sizeof(), {})
    if isinstance(sc, E.Flag):
        return ("B", sc.subcon.sizeof(), {"flag": True})
    if isinstance(sc, D.DatetimeYdms):
        return ("ydms", 12, {})
    if isinstance(sc, D.DatetimeYdus):
        return ("us", 8, {})
    if isinstance(sc, C.Enum):
        k = kind_of(sc.subcon)
        return (k[0], k[1], {**k[2], "enum": {str(a): b for a, b in sc.encmapping.items()}})
    if isinstance(sc, C.FormatField):
        return ("B", sc.sizeof(), {})
    return None


def walk(sc, prefix, off, out):
    if isinstance(sc, C.Renamed):
        inner = sc.subcon
        path = prefix + [sc.name]
        k = kind_of(inner)
        if k is not None:
            out.append({"name": ".".join(path), "off": off, "w": k[1], "kind": k[0], **k[2]})
            return off + (k[1] or 0)
        return walk(inner, path, off, out)
    if isinstance(sc, D.Metadata) and isinstance(sc.subcon, C.Struct):
        out.append({"name": ".".join(prefix), "off": off, "w": 0, "kind": "meta", "attrs": dict(sc.attrs)})
        return walk(sc.subcon, prefix, off, out)
    if isinstance(sc, C.Struct):
        for sub in sc.subcons:
            off = walk(sub, prefix, off, out)
        return off
    if isinstance(sc, C.Array):
        cnt = sc.count
        if callable(cnt):
            out.append({"name": ".".join(prefix), "off": off, "w": None, "kind": "dynarray"})
            return off
        for i in range(cnt):
            off = walk(sc.subcon, prefix[:-1] + [f"{prefix[-1]}[{i}]"], off, out)
        return off
    if type(sc).__name__ in ("Tell", "Computed", "Seek") or sc is C.Tell:
        return off
    k = kind_of(sc)
    if k is not None:
        out.append({"name": ".".join(prefix), "off": off, "w": k[1], "kind": k[0], **k[2]})
        return off + (k[1] or 0)
    raise ValueError(("unknown", prefix, type(sc)))


def dump(name, rec, expect=None):
    out = []
    end = walk(rec, [], 0, out)
    if expect is not None:
        assert end == expect, (name, end, expect)
    rows = ",\n".join("  " + json.dumps(r, ensure_ascii=False) for r in out)
    (OUT / f"{name}.json").write_text(
        '{"record": %s, "size": %d, "fields": [\n%s\n]}\n' % (json.dumps(name), end, rows)
    )
    print(name, end, len(out))


if __name__ == "__main__":
    from ceos_alos2.sar_image.file_descriptor import file_descriptor_record as img_fd
    from ceos_alos2.sar_image.processed_data import processed_data_record
    from ceos_alos2.sar_image.signal_data import signal_data_record
    from ceos_alos2.sar_leader.attitude import attitude_point
    from ceos_alos2.sar_leader.data_quality_summary import (
        calibration_uncertainty,
        misregistration_error,
    )
    from ceos_alos2.sar_leader.dataset_summary import dataset_summary_record
    from ceos_alos2.sar_leader.facility_related_data import facility_related_data_5_record
    from ceos_alos2.sar_leader.file_descriptor import file_descriptor_record as led_fd
    from ceos_alos2.sar_leader.map_projection import map_projection_record
    from ceos_alos2.sar_leader.platform_position import platform_position_record
    from ceos_alos2.sar_leader.radiometric_data import radiometric_data_record
    from ceos_alos2.volume_directory.structure import file_descriptor as vol_fp
    from ceos_alos2.volume_directory.structure import text_record, volume_descriptor

    OUT.mkdir(exist_ok=True, parents=True)
    dump("vol.volume_descriptor", volume_descriptor, 360)
    dump("vol.file_pointer", vol_fp, 360)
    dump("vol.text_record", text_record, 360)
    dump("led.file_descriptor", led_fd, 720)
    dump("led.dataset_summary", dataset_summary_record, 4096)
    dump("led.map_projection", map_projection_record, 1620)
    dump("led.platform_position", platform_position_record, 4680)
    dump("led.attitude_point", attitude_point, 120)
    dump("led.radiometric_data", radiometric_data_record, 9860)
    from ceos_alos2.sar_leader.data_quality_summary import data_quality_summary_record as dq

    dump("led.dq_head", C.Struct(*dq.subcons[:6]), 222)
    dump("led.dq_abs_geometric", C.Struct(dq.subcons[7]), 96)
    dump("led.dq_calibration_uncertainty", calibration_uncertainty, 32)
    dump("led.dq_misregistration_error", misregistration_error, 32)
    dump("led.facility_related_data_5", facility_related_data_5_record, 5000)
    from ceos_alos2.sar_trailer.file_descriptor import file_descriptor_record as trl_fd
    from ceos_alos2.sar_trailer.file_descriptor import low_res_image_size

    dump("trl.file_descriptor_head", trl_fd, None)
    dump("trl.low_res_image_size", low_res_image_size, 26)
    dump("img.file_descriptor", img_fd, 720)
    dump("img.signal_data", signal_data_record, 544)
    dump("img.processed_data", processed_data_record, 192)
