"""Print the kill matrix of /verif/seeded as a markdown table (paste into DESIGN.md §10)."""
import json
import pathlib

root = pathlib.Path(__file__).resolve().parent.parent / "seeded"
print("| seeded change | breaks | what it is / what it needs to manifest | valid | flagged by | silent |")
print("|---|---|---|---|---|---|")
for d in sorted(root.iterdir()):
    m = json.loads((d / "meta.json").read_text())
    fl = [c for c, r in sorted(m["checks"].items()) if r["result"] == "FLAGGED"]
    si = [c for c, r in sorted(m["checks"].items()) if r["result"] != "FLAGGED"]
    print(f"| {m['name']} | {m['breaks']} | {m.get('needs_to_manifest', '')} | {'yes' if m.get('valid') else 'NO'} | {' '.join(fl)} | {' '.join(si)} |")
