"""False-alarm matrix: apply hand-written *property-preserving* refactorings to a scratch copy of
/repo (the kind of change a maintainer makes without breaking any of C01-C20), make sure the
repository's own tests still pass, and run checks against the copy (VERIF_REPO).  Every check must
stay silent on every one of them.

usage: python3 tools/benign.py [-k substring] [--tier quick] [--checks C01,C11|all]
"""
import argparse
import os
import pathlib
import shutil
import subprocess
import tempfile
import time

VERIF = pathlib.Path(__file__).resolve().parent.parent
ALL = [f"C{i:02d}" for i in range(1, 21)]

# (name, [(relative file, old, new), ...], [checks most likely to be over-demanding])
BENIGN = [
    (
        "readinto-chunk",
        [("ceos_alos2/array.py", "    f.seek(offset)\n\n    return f.read(size)", "    f.seek(offset)\n    buffer = bytearray(size)\n    n = f.readinto(buffer)\n\n    return bytes(buffer[:n])")],
        ["C01", "C02", "C11", "C18", "C19"],
    ),
    (
        "cat-file-per-chunk",
        [
            (
                "ceos_alos2/array.py",
                "            with self.fs.open(self.url, mode=\"rb\") as f:\n                data_ = []\n                for chunk_info, ranges in tasks:\n                    chunk = read_chunk(f, **chunk_info)\n",
                "            if True:\n                data_ = []\n                for chunk_info, ranges in tasks:\n                    chunk = self.fs.cat_file(\n                        self.url,\n                        start=chunk_info[\"offset\"],\n                        end=chunk_info[\"offset\"] + chunk_info[\"size\"],\n                    )\n",
            )
        ],
        ["C01", "C02", "C06", "C07", "C11", "C18", "C19"],
    ),
    (
        "descriptor-in-two-reads",
        [("ceos_alos2/sar_image/io.py", "    return file_descriptor_record.parse(f.read(720))", "    preamble = f.read(12)\n    return file_descriptor_record.parse(preamble + f.read(708))")],
        ["C11", "C18", "C07", "C01"],
    ),
    (
        "seek-before-records",
        [("ceos_alos2/sar_image/io.py", "    n_chunks = math.ceil(n_records / records_per_chunk)", "    f.seek(720)\n    n_chunks = math.ceil(n_records / records_per_chunk)")],
        ["C11", "C18", "C07"],
    ),
    (
        "compact-json",
        [("ceos_alos2/sar_image/caching/__init__.py", "    return json.dumps(preprocess(encoded))", "    return json.dumps(preprocess(encoded), separators=(\",\", \":\"))")],
        ["C07", "C08", "C09", "C10"],
    ),
    (
        "indented-json",
        [("ceos_alos2/sar_image/caching/__init__.py", "    return json.dumps(preprocess(encoded))", "    return json.dumps(preprocess(encoded), indent=1)")],
        ["C07", "C08", "C09", "C10"],
    ),
    (
        "truncation-error-subclass",
        [
            (
                "ceos_alos2/sar_image/io.py",
                "def parse_chunk(content, element_size):\n    n_elements = len(content) // element_size\n    if n_elements * element_size != len(content):\n        raise ValueError(",
                "class TruncatedFileError(ValueError, EOFError):\n    pass\n\n\ndef parse_chunk(content, element_size):\n    n_elements = len(content) // element_size\n    if n_elements * element_size != len(content):\n        raise TruncatedFileError(",
            )
        ],
        ["C18"],
    ),
    (
        "summary-message-wording",
        [("ceos_alos2/summary.py", '    e.args = (f"line {lineno:02d}: {message}",) + e.args[1:]', '    e.args = (f"summary.txt, line {lineno}: {message}",) + e.args[1:]')],
        ["C14"],
    ),
    (
        "leader-via-fs-open",
        [
            (
                "ceos_alos2/sar_leader/io.py",
                "    try:\n        data = mapper[path]\n    except KeyError as e:\n        raise FileNotFoundError(f\"Cannot open {path}\") from e\n",
                "    with mapper.fs.open(f\"{mapper.root}/{path}\", mode=\"rb\") as f:\n        data = f.read()\n",
            )
        ],
        ["C04", "C18", "C05", "C20"],
    ),
    (
        "shared-lock-per-url",
        [
            (
                "ceos_alos2/xarray.py",
                "    if isinstance(var.data, Array):\n        lock = SerializableLock()\n",
                "    if isinstance(var.data, Array):\n        lock = locks.setdefault(var.data.url, SerializableLock())\n",
            ),
            ("ceos_alos2/xarray.py", "class LazilyIndexedWrapper(BackendArray):", "locks = {}\n\n\nclass LazilyIndexedWrapper(BackendArray):"),
        ],
        ["C19", "C10", "C01"],
    ),
    (
        "concatenate-not-stack",
        [
            (
                "ceos_alos2/array.py",
                "                data = np.stack(data_, axis=0)\n",
                "                data = np.concatenate([part[np.newaxis] for part in data_], axis=0)\n",
            )
        ],
        ["C01", "C02", "C12"],
    ),
    (
        "per-line-arrays",
        [
            (
                "ceos_alos2/sar_image/caching/encoders.py",
                "    def default_encode(obj):\n        return obj.tolist(), {}\n",
                "    def default_encode(obj):\n        return [item for item in obj.tolist()] if obj.ndim else obj.tolist(), {}\n",
            )
        ],
        ["C08", "C07"],
    ),
    (
        "cache-read-bytes",
        [("ceos_alos2/sar_image/caching/__init__.py", "            return decode_cache(local.read_text)", "            return decode_cache(lambda: local.read_bytes().decode())")],
        ["C07", "C09", "C10"],
    ),
    (
        "cache-exists-check",
        [("ceos_alos2/sar_image/caching/__init__.py", "    if local.is_file():", "    if local.exists():")],
        ["C07", "C09", "C10"],
    ),
    (
        "catch-all-cache-errors",
        [("ceos_alos2/sar_image/caching/__init__.py", "        except (ValueError, KeyError, TypeError, AttributeError) as e:", "        except Exception as e:")],
        ["C07", "C09", "C10"],
    ),
    (
        "np-integer-rows",
        [("ceos_alos2/array.py", "    if isinstance(indexer, int):\n        indexer = [indexer]", "    if isinstance(indexer, (int, np.integer)):\n        indexer = [int(indexer)]")],
        ["C02", "C11", "C12"],
    ),
    (
        "groupname-fstring",
        [("ceos_alos2/sar_image/__init__.py", '    return "_".join([_ for _ in parts if _])', '    return polarization if scan_number is None else f"{polarization}_{scan_number}"')],
        ["C13", "C15"],
    ),
    (
        "utf8-cache-files",
        [
            ("ceos_alos2/sar_image/caching/__init__.py", "    return json.dumps(preprocess(encoded))", "    return json.dumps(preprocess(encoded), ensure_ascii=False)"),
            ("ceos_alos2/sar_image/caching/__init__.py", "            return decode_cache(local.read_text)", "            return decode_cache(lambda: local.read_text(encoding=\"utf-8\"))"),
            ("ceos_alos2/sar_image/caching/__init__.py", "    local.write_text(encoded)", "    local.write_text(encoded, encoding=\"utf-8\")"),
            ("ceos_alos2/sar_image/cli.py", "    target.write_text(encoded)", "    target.write_text(encoded, encoding=\"utf-8\")"),
        ],
        ["C07", "C08", "C09", "C10"],
    ),
    (
        "atomic-cache-write",
        [
            (
                "ceos_alos2/sar_image/caching/__init__.py",
                "    local.write_text(encoded)",
                "    import os\n\n    temporary = local.with_name(local.name + \".part\")\n    temporary.write_text(encoded)\n    os.replace(temporary, local)",
            )
        ],
        ["C07", "C09", "C10", "C03"],
    ),
    (
        "iso-always-with-microseconds",
        [("ceos_alos2/transformers.py", '    return dt.datetime.strptime(string, "%Y%m%d%H%M%S%f").isoformat()', '    return dt.datetime.strptime(string, "%Y%m%d%H%M%S%f").isoformat(timespec="microseconds")')],
        ["C04", "C16", "C17", "C13"],
    ),
    (
        "getitem-returns-copy",
        [("ceos_alos2/array.py", "        return data[new_indexers]", "        return np.array(data[new_indexers], copy=True)")],
        ["C01", "C02", "C12", "C19"],
    ),
    (
        "filename-decoder-memo-with-copies",
        [
            ("ceos_alos2/sar_image/__init__.py", "def filename_to_groupname(path):\n    info = decode_filename(path)", "_names = {}\n\n\ndef filename_to_groupname(path):\n    if path not in _names:\n        _names[path] = dict(decode_filename(path))\n    info = dict(_names[path])"),
        ],
        ["C10", "C13", "C15", "C19"],
    ),
    (
        "retry-failed-reads",
        [("ceos_alos2/array.py", "    f.seek(offset)\n\n    return f.read(size)", "    for attempt in range(3):\n        try:\n            f.seek(offset)\n            return f.read(size)\n        except OSError:\n            if attempt == 2:\n                raise")],
        ["C02", "C01", "C11", "C18"],
    ),
    (
        "strict-image-size",
        [
            (
                "ceos_alos2/sar_image/__init__.py",
                "    group[\"data\"] = Variable(\n",
                "    expected_size = 720 + header[\"number_of_sar_data_records\"] * header[\"sar_data_record_length\"]\n    if fs.size(path) > expected_size:\n        raise ValueError(f\"{path}: {fs.size(path) - expected_size} bytes behind the last record\")\n\n    group[\"data\"] = Variable(\n",
            )
        ],
        ["C01", "C06", "C11", "C18", "C07"],
    ),
    (
        "mapper-getitem-missing-summary",
        [("ceos_alos2/summary.py", "        raise OSError(\n", "        raise FileNotFoundError(\n")],
        ["C18"],
    ),
]


def sh(cmd, **kw):
    return subprocess.run(cmd, shell=True, capture_output=True, text=True, **kw)


def main():
    ap = argparse.ArgumentParser()
    ap.add_argument("-k", default="")
    ap.add_argument("--tier", default="quick")
    ap.add_argument("--checks", default="", help="comma list (or 'all') overriding the per-change list")
    args = ap.parse_args()
    scratch = pathlib.Path(tempfile.mkdtemp(prefix="benignrepo-"))
    alarms = 0
    try:
        sh(f"rsync -a --exclude .git /repo/ {scratch}/")
        for name, edits, checks in BENIGN:
            if args.k and args.k not in name:
                continue
            if args.checks:
                checks = ALL if args.checks == "all" else args.checks.split(",")
            saved = {}
            try:
                ok = True
                for rel, old, new in edits:
                    p = scratch / rel
                    src = p.read_text()
                    saved.setdefault(p, src)
                    if src.count(old) != 1:
                        print(name, "PATTERN-NOT-FOUND", rel, src.count(old))
                        ok = False
                        break
                    p.write_text(src.replace(old, new))
                if not ok:
                    continue
                r = sh(f"cd {scratch} && PYTHONPATH={scratch} /venv/bin/python -m pytest -q -p no:cacheprovider 2>&1 | tail -1")
                tests = "pass" if "1212 passed" in r.stdout else "FAIL:" + r.stdout.strip()[-70:]
                res = {}
                for c in checks:
                    t0 = time.time()
                    r = sh(f"cd {VERIF} && VERIF_REPO={scratch} ./run {c} --tier {args.tier}", env={**os.environ, "VERIF_EVIDENCE_DIR": str(scratch / ".evidence"), "VERIF_REPLAY_DIR": str(scratch / ".replays")})
                    flagged = "VIOLATION" in r.stdout
                    alarms += flagged or r.returncode == 2
                    res[c] = ("ALARM" if flagged else ("HARNESS-ERROR" if r.returncode == 2 else "silent")) + f"({time.time() - t0:.0f}s)"
                    if flagged or r.returncode == 2:
                        print("   ", c, [l for l in r.stdout.splitlines() if l.startswith(("  ", "HARNESS"))][:2])
                print(name, "tests=" + tests, res, flush=True)
            finally:
                for p, src in saved.items():
                    p.write_text(src)
    finally:
        shutil.rmtree(scratch, ignore_errors=True)
    print("alarms:", alarms)


if __name__ == "__main__":
    main()
