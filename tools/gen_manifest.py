"""Regenerate /verif/MANIFEST.json from the table below (run with any python3)."""
import json
import pathlib

VERIF = pathlib.Path(__file__).resolve().parent.parent

# id -> (category, technique, text, note)
CHECKS = {
    "C01": (
        "exploration",
        "exhaustive small-scope enumeration of products (geometry x type x rpc x filesystem x bit-pattern layouts) on the real open_alos2, bit-for-bit oracle from an independent encoder",
        "Every product in the stated finite space is synthesized by an encoder that shares no code with the reader, opened through open_alos2 and every pixel word compared as an unsigned integer with the file's big-endian word. Exhaustive within the bounds; says nothing beyond 6x4 images or outside the 13 float / 7 uint16 bit patterns.",
        "trusts the frozen layout tables (mc/layout), NumPy byte-order conversion and fsspec's local/memory filesystems; signalling NaNs excluded",
    ),
}

PENDING = {}


def main():
    props = [json.loads(l) for l in (VERIF / "properties.jsonl").read_text().splitlines() if l.strip()]
    checks = []
    na = []
    for p in props:
        pid = p["id"]
        if pid in CHECKS and (VERIF / "mc" / "checks" / f"{pid.lower()}.py").exists():
            cat, tech, text, note = CHECKS[pid]
            checks.append(
                {
                    "property_id": pid,
                    "quick_cmd": f"./run {pid} --tier quick",
                    "thorough_cmd": f"./run {pid} --tier thorough",
                    "evidence_file": f"/verif/evidence/{pid}.json",
                    "replay_cmd_template": f"./run {pid} --replay {{path}}",
                    "engine": "mc",
                    "level_claimed": {"category": cat, "text": text, "design_ref": f"DESIGN.md §4 {pid}"},
                    "level_note": note,
                    "technique": tech,
                }
            )
        else:
            na.append({"property_id": pid, "reason": PENDING.get(pid, "check not built yet in this session (model-checking design exists in DESIGN.md §4); not claimed until its check is committed")})
    manifest = {
        "version": 1,
        "setup_cmd": "/venv/bin/python -c 'import ceos_alos2, numpy, xarray, fsspec, construct' && chmod +x /verif/run",
        "hooks": {
            "guard": "CEOS_ALOS2_VERIF",
            "enable": "no source hooks are needed: /verif/run exports CEOS_ALOS2_VERIF=1 for uniformity, the library does not read it; all seams are public API, an fsspec protocol registered by the harness, XDG_CACHE_HOME and rebinding from outside",
            "baseline_off_cmd": "cd /repo && /venv/bin/python -m pytest -ra -q -p no:cacheprovider --timeout=900 --continue-on-collection-errors",
            "source_commits": [],
            "add_only": True,
        },
        "engines": [
            {
                "name": "mc",
                "path": "/verif/mc",
                "serves_properties": [c["property_id"] for c in checks],
                "kind_free_text": "hand-written explicit-state / deviation-bounded exhaustive explorer driving the real Python code (independent encoder + reference model, tracing filesystem, cooperative scheduler, crash-prefix enumerator)",
            }
        ],
        "checks": checks,
        "not_applicable": na,
        "notes": "All checks run /repo's working tree directly (editable install); see DESIGN.md.",
    }
    (VERIF / "MANIFEST.json").write_text(json.dumps(manifest, indent=1, ensure_ascii=False) + "\n")
    print(f"claimed {len(checks)}; not claimed {len(na)}")


if __name__ == "__main__":
    main()
