"""Regenerate /verif/MANIFEST.json from the table below (run with any python3)."""
import json
import pathlib

VERIF = pathlib.Path(__file__).resolve().parent.parent

# id -> (category, technique, text, note)
CHECKS = {
    "C01": (
        "exploration",
        "exhaustive small-scope enumeration of products (geometry x type x rpc x filesystem x bit-pattern layouts) on the real open_alos2, bit-for-bit oracle from an independent encoder",
        "Every product in the stated finite space is synthesized by an encoder that shares no code with the reader, opened through open_alos2 and every pixel word compared as an unsigned integer with the file's big-endian word. Exhaustive within the bounds; says nothing beyond 6x4 images or outside the 13 float / 7 uint16 bit patterns.",
        "trusts the frozen layout tables (mc/layout), NumPy byte-order conversion and fsspec's local/memory filesystems; signalling NaNs excluded",
    ),
    "C02": (
        "model_checking",
        "exhaustive enumeration of every index expression of a finite per-axis alphabet (depth 1) plus explicit-state BFS over chains of indexing steps (state = effective selection), each executed on the real lazy array and compared with an in-memory twin",
        "All ints, all slices (bounds None|-n-1..n+1, steps None|+-1|+-2|+-3), all integer arrays of length <= 2, all boolean masks on the line axis crossed with column expressions, getitem/sel/pointwise spellings, and chains to depth 2 (quick) / 3 (thorough) with deduplication on the effective selection (cross-checked once without deduplication). Deviations that a trivially correct NumPy-backed backend under the same xarray adapter shows identically are attributed to xarray (known findings D13a-c).",
        "trusts the in-memory xarray/NumPy indexing as the reference; images <= 5x3; expressions outside the alphabet (longer index arrays, larger steps) are not covered",
    ),
    "C06": (
        "exploration",
        "exhaustive enumeration of (lines, records_per_chunk) pairs with full-tree differential comparison against the rpc=1 tree, with and without an index cache",
        "Every L in 1..6 and rpc in {1..L+2, 1024, 1e9} for both sample types; the fully loaded tree snapshot must be identical leaf for leaf except the advertised preferred chunk size, which is checked against min(rpc, L).",
        "pairwise identity for L > 3 is derived by transitivity through rpc=1; two images per product",
    ),
    "C11": (
        "exploration",
        "I/O-event monitor on a tracing fsspec filesystem over the exhaustive selection alphabet of C02 x rpc x geometry, spans computed by independent arithmetic",
        "For every selection, rpc in 1..L+1 and L in 1..4 (quick) / 1..6 (thorough) the recorded open/seek/read events of the load are checked: opens of that image only, <= 1 read per overlapping line group, every read inside its group and the file, none outside the span, nothing for empty selections; the metadata pass of every open is checked to be the descriptor followed by <= ceil(L/rpc) contiguous reads.",
        "events are observed at the fsspec file-object level on the harness' mcfs:// filesystem; selections whose lazy shape xarray mis-composes (C02 D13c) are skipped and counted",
    ),
    "C04": (
        "exploration",
        "deviation-bounded exhaustive enumeration over the leader's fields (baseline, every single field x text-format alphabet, all-fields-at-once per alphabet index, structural variants) with a leaf-by-leaf reference tree model built from frozen layout tables",
        "Every value field of the exposed leader records receives every entry of its finite alphabet (E/F notation, signs, justification, extremes, every enum code); each product is opened with open_alos2 and all /metadata leaves (value, unit, name, dims, group path) are compared with a reference model that reads only the bytes written. Within one deviation from the baseline plus the all-at-once products.",
        "the frozen layout tables + leaf rules are the trusted statement of the documented format (reviewed, cross-validated against the pinned tree on 467 leaves); numbers compare numerically (-0.0 == 0.0), scaled values within 4 ulp",
    ),
    "C18": (
        "fault_enumeration",
        "exhaustive enumeration of truncation lengths and missing files, executed on the real open_alos2 / open_image over a fault-injecting fsspec filesystem",
        "Every byte length 0..size of an image file x 5 rpc x 2 types through sar_image.open_image; through open_alos2 at every length (thorough) or at every record/field boundary +-1 and every 16th byte (quick); leader and volume directory cuts; every single missing file x use_cache x 3 filesystems. Each outcome must be 'raises' (OSError family for missing files) or 'returns and every declared line loads and equals the truth'; failing opens may not issue more filesystem events than the intact open.",
        "a cut file is modelled as a shorter file; wall-clock promptness is replaced by a deterministic event-count bound",
    ),
    "C03": (
        "exploration",
        "deviation-bounded exhaustive enumeration over line-record and header fields (field x value alphabet x line, calendar boundary stamps, optional header fields x blank/0/value/full width) against the reference tree model",
        "Both record types; every prefix field receives {0, 1, mid, max, high bit} / every enum code / flag 0,1,2 on a line, per-file constants on all lines, every (year, day, ms) of the boundary set and us stamps; each product is opened with open_alos2 and every /imagery leaf (per-line values in file order, units, constants as attributes, header attributes present iff non-blank) is compared with the reference model.",
        "trusts the frozen prefix layouts (544/192 bytes) and leaf rules; a blank interleaving id may be absent or ''; level-1.1 nested sections are expected flattened as <section>_<field>",
    ),
    "C05": (
        "exploration",
        "complete enumeration of the small framing domains (attitude points, channels, facility lengths, map projection count, file pointers, trailer images) with whole-tree comparison against the reference model",
        "Every admissible N / length of every variable-length record is synthesized with distinct values in every record, so a record decoded from a neighbour's bytes is a leaf mismatch; the trailer is parsed through read_sar_trailer and every image compared with its own byte range.",
        "trailer shape orientation not pinned (multiset); attitude time leaves excluded (C17)",
    ),
    "C12": (
        "exploration",
        "exhaustive inspection of every node, variable and attribute of products of all levels x map projection x image count and of extreme/blank deviations, plus a selection alphabet for the declared-vs-loaded clause",
        "For every variable: dtype is a numpy dtype of an allowed kind, declared shape/dtype equal the loaded ones; attributes are plain; nbytes/repr work on the tree and every node; 60 selections per image compared before/after load.",
        "allowed kinds b,i,u,f,c,M,m,U,S; selections that raise are C02's subject",
    ),
    "C13": (
        "exploration",
        "enumeration of image-name sets (all singles, all ordered pairs, rotations/reversals for k=3..8), levels, map projection and summary section orders with whole-tree comparison against the reference model",
        "Each image has its own size and id-coded pixels, so swapped or dropped groups are leaf mismatches; /imagery child order, root children, root attributes, metadata groups and coordinate promotion are checked; all 8! section orders go through the summary seam and are compared with the first order.",
        "B- and F-method scans of equal number are not mixed in one product",
    ),
    "C14": (
        "exploration",
        "exhaustive enumeration of line orders / value shapes for well-formed summaries and of all 2^12 corruption subsets x 10 corruption kinds for malformed ones, with an independent line recogniser and summary reference model",
        "Well-formed texts must produce exactly the reference summary leaves under every rotation, transposition, per-section permutation, CRLF, and 3..10 product files; malformed texts must raise one error group naming exactly the corrupted lines (one numbering base).",
        "values are printable ASCII without line separators; numbering base 0 or 1 accepted",
    ),
    "C15": (
        "exploration",
        "complete enumeration of the identifier language (3600 product ids, type x polarisation x scan shapes, all dates 2014-2049) and of all edit-distance-1 near misses of 6 base strings, classified by a table-driven recogniser",
        "All 3600 ids are opened as products (summary attributes and image group names compared with the tables); file names go through decode_filename (1.5M in the thorough tier); near misses must raise ValueError when outside the language and decode exactly when inside.",
        "two-digit-year pivot valid until 2064; unknown three-letter file types left undecided",
    ),
    "C16": (
        "exploration",
        "deviation-bounded exhaustive enumeration over the volume directory's text fields, creation timestamps and file-pointer counts against the reference root attributes",
        "Every text field x content alphabet (blank, 1 char, full width, spaces, punctuation, quotes), the timestamp boundary product and 0..12 file pointers; the root attributes must be exactly the documented set with stripped text and the ISO 8601 form of the same instant.",
        "printable ASCII only",
    ),
    "C17": (
        "exploration",
        "exhaustive enumeration of instants (every day 2014-2049 x 3 times in the thorough tier) written simultaneously into every time-bearing field, each decoded leaf compared with the instant",
        "Image line stamps, us-of-day stamps, attitude points, platform-position first point, scene-centre text, volume creation text and summary date-times must all decode to the same instant at their stored resolution; the known attitude +1 day defect (D11) is matched by its exact signature only.",
        "day-of-year 1 = 1 January; leap seconds not modelled",
    ),
    "C20": (
        "exploration",
        "exhaustive enumeration of blanked nullable fields (single, per record, pairs) and rewritten spare areas (each content class), plus a byte-by-byte influence map in the thorough tier, against the reference model and a differential oracle for unmodelled leaves",
        "Blank float -> NaN, int -> -1, text -> '' at exactly that leaf, header attributes absent, nothing else changes, no exception; every spare/blank/reserved area and length-dependent padding may hold any content of its class without changing any leaf of the tree (modelled or not).",
        "doubtful fields are treated as required (exempt); text areas printable ASCII, numeric spares numbers",
    ),
    "C07": (
        "model_checking",
        "exhaustive enumeration of the cache configuration space (product x producer x location x filesystem x rpc at write x rpc at read), each configuration executed on the real code with a differential tree oracle and an I/O-event monitor",
        "All 312 configurations: caches are produced by the open option and/or the real CLI main(), then the product is opened uncached and cached; trees must be identical (incl. preferred chunks and the pixel-read pattern of the current rpc), the image file may not be touched during a cached open (mcfs events / CPython audit events), pixel loads must hit the image on the same filesystem, use_cache=False must not touch any index even when every index is poisoned with another image's valid document.",
        "I/O on memory:// is not observable (tree equality only); adjacent indexes of non-local products are produced on a local copy and uploaded",
    ),
    "C08": (
        "exploration",
        "exhaustive enumeration of generated hierarchies (dtype x shape x value alphabet rotated through every position x byte order x container) and reader-produced groups through encode -> decode, in process and in a fresh interpreter that receives only the text",
        "1197 generated documents + reader groups of both levels with extreme values; decode(encode(g)) must equal g leaf for leaf (dtype up to byte order, shape, bytes with NaN by class and -0.0 != 0.0, attrs with tuple/list distinction, dims, paths, variable order, image-array fields).",
        "lists compare as numpy.asarray(list); one array never spans more than 2^63 time units; (0, n) empties outside the alphabet",
    ),
    "C09": (
        "fault_enumeration",
        "crash-prefix enumeration: every byte prefix of every index document at every location is planted and the recovery sequence (default open, create_cache open, cached open) is executed on the real code",
        "Post-crash states of an in-place write are the byte prefixes 0..len; all ~33k prefixes x 2 locations go through sar_image.open_image, the selected (quick) or all (thorough) prefixes through open_alos2 with tree equality against the uncached reference, repair check (user-cache file complete after create_cache=True) and no re-read of line records afterwards; torn+complete pairs at both locations.",
        "single-file prefix model (no block reordering); a concurrent writer exposes the same states; no SIGKILL sampling",
    ),
    "C10": (
        "model_checking",
        "explicit-state search over operation histories on the real code: BFS to closure over canonical cache/process states, all depth-2 histories literally, all histories to depth 3 (4 in the thorough tier) as a tree walk, invariants checked on every transition",
        "20 operations (12 opens, shared-options open, option-less open, 4 CLI creations, 2 deletions) on level 1.1/1.5 products on a local directory and on mcfs. Every transition checks: tree == pristine uncached tree of that step's rpc, caller option dicts and default objects unchanged, product bit-identical, writes only *.index in the user cache dir and only when asked (audit events), (a change of the library's module-level state is part of the canonical state, not a verdict). Closure reached at 16 states per product.",
        "reference trees computed in the worker before its first operation; depth beyond 3/4 only through closure",
    ),
    "C19": (
        "model_checking",
        "stateless model checking of real threads under a cooperative scheduler: preemption-bounded DFS (iterative context bounding) over filesystem, lock and line-level yield points, every schedule executed on the real code and compared with the sequential result",
        "7 scenarios (same variable, different variables, pickled copies, three threads); all schedules with <= 3 preemptions (2 threads) / <= 2 (3 threads) at mcfs+lock yield points, plus line-granular yield points inside the library at bound 1 (quick) / 2 (thorough). The real xarray SerializableLock is kept (only its primitive is made cooperative). Deadlock = no enabled thread. Schedules are replayed to prove determinism.",
        "preemption inside C code is not modelled; a free-running real-thread pass is a non-deciding supplement",
    ),
}

# legs added after the seeded-change waves (DESIGN §10); the exact bounds of every run are in the evidence file's `rule`
ADDED = {
    "C01": " Beyond the small scope, a fixed set of large cases is enumerated completely too: images of 640..70000 lines, up to 104 MB (260 MB thorough), request spans of exactly 2^16..2^23 bytes, several reads / held results / deep copies / pickle round trips of one opened array, and 1.1+1.5 twins of equal record length in one process. 15 pairs of look-alike sibling product directories (case, separators, escapes, Unicode forms) holding a same-named image of another geometry share the user cache and are opened in both orders.",
    "C02": " Plus 11..16-line images with strides up to +-7 against line groups of 2..8 and a fault-retry leg (a transient read error, then the same and other selections).",
    "C03": " Plus images of 260..4200 lines, four-image products opened through the cache they have just written, piecewise-constant per-line values, 1.1+1.5 twins of equal record length, and image files replaced in place (modification time kept or not) between two opens.",
    "C04": " 28 float / 15 integer text formats, free-text contents that look like dates / numbers / nan / None; 30 all-fields-at-once products; the leader replaced in place (equal size, modification time kept or not) between two opens.",
    "C05": " Facility records of every length up to 2600 (20000 thorough) and around every power of two up to 2^17, attitude records of every length up to 700 (3000). Facility records 2 and 5 beginning at 2^15..2^18 -14..+2.",
    "C06": " Plus 100-, 1030- and 1100-line products (many line groups; more lines than the default request size). An 8300-line product at request sizes around and beyond 8192 lines. 1100x200 / 1030x60 products on the local filesystem (requests of 64 KiB and more).",
    "C07": " Plus per-line values that are identical / drift by one unit / are piecewise constant (what a size-optimised index would fold), and 16 configurations in an interpreter whose locale encoding is ASCII. The first pixel load of a fresh cached tree must read what an uncached tree's load reads; use_cache=True with create_cache=True must use a usable cache without touching the image.",
    "C08": " Plus pattern arrays (identical elements, zeros of mixed sign, adjacent representable values, all NaN/NaT) and long arrays (20..5000 elements, piecewise constant with change points 4/15/1000/1024/4096, full-range ramps, both byte orders), reader-produced 4200-line groups. Backend byte ranges straddling / touching offsets 2^31, 2^32 and 2^40 on every line; non-contiguous, transposed and strided input arrays. Text that reads like a token of another type (NaN, Infinity, null, true, numbers, times, containers) as attribute values, nested in lists/tuples and as elements of string arrays.",
    "C09": " Plus an 18000-line image whose index exceeds 5 MiB, cut at every power of two 2^12..2^22 and every MiB multiple in both locations (block-wise copies and reads). Default opens of torn indexes while no file can grow beyond the prefix length (RLIMIT_FSIZE: the volume is still full). With a complete index in the other location the line records must not be re-read. Real crash points: a forked child running create_cache=True is killed by the kernel (RLIMIT_FSIZE + default SIGXFSZ) at byte k of the cache file it writes; the parent opens, repairs and re-opens what was left.",
    "C10": " Products have 22..23-line images with piecewise-constant per-line values.",
    "C11": " Plus pointwise (vectorised) pairs and triples, loads from deep copies / pickle round trips, and images of 2100..5120 lines and 104 MB. Plus an index written by the command line tool elsewhere and deployed next to the image, every selection being the first load of a fresh copy of the lazy object. Narrow column windows of 16- and 40-pixel lines. Two ~290 MB images of 290-300 lines (records near the 999 999-byte limit of the length field) whose line records fit one request of more than 256 MiB.",
    "C12": " Plus declared-vs-loaded shape/dtype of 9 selections on 8 realistically sized images (up to 104 MB). Plus 144 two-product sequences in one process (a 1.1 and a 1.5 image of equal record length or equal pixel count, both orders, mcfs and local), 4 selections on each.",
    "C13": " Plus products with index files next to every non-empty subset of their images. Plus products whose images carry per-line values one unit of the last stored digit apart (or equal in pairs). Products whose images have identical file descriptors field by field (as the polarisations of one scene do) with differing per-line values.",
    "C14": " 14 corruption kinds (4 with non-ASCII letters / underscore / quote); typed values incl. leap second, leap day, number spellings and every table code. Scene-id dates with every two-digit year and every day around the turn of seven years. Every order of the 4 / 6 shape lines of 2 / 3 shape indices.",
    "C15": " The near-miss alphabet contains the line feed, non-ASCII digits and letters, lower case and control characters.",
    "C16": " Plus creation times around daylight-saving switch-overs under four local time zones, text that looks like a date-time, and the volume directory replaced in place between two opens.",
    "C17": " Plus 16 times of day at every order of magnitude of the ms/us counters, decimal seconds up to 86399.9999996, blank-padded date texts, four daylight-saving time zones and images of up to 2049 lines. Plus millisecond stamps ahead of the microsecond counter. 130 attitude points with distinct milliseconds on nine days of the year, exact to the nanosecond.",
    "C18": " Plus 19..72 MB images cut at record boundaries, inside prefixes / pixel data and at powers of two, and every file cut in place after an intact open in the same process (modification time kept or not). Plus images whose record length is 720 / 360 / 240 bytes cut around every record boundary; the narrow seam counts 'open returned, load raises' as a violation. The second image of a product cut as well (geometry and file descriptor equal to / different from the first image's); waits requested through time.sleep before a missing-file error are recorded, more than 5 s is not prompt.",
    "C19": " Plus six scenarios on a filesystem whose open() hands out one shared, rewound file object (like memory://) and 132 two-thread scenarios on a 12-image product after every image was read once; the library's process-level state is restored before every execution. Plus eight scenarios on the local filesystem (fsspec LocalFileSystem with traced, schedulable reads). The scheduler also controls Event / Condition / concurrent.futures.Future waits and locks held by module-level library objects.",
    "C20": " Plus a second baseline in which all numeric fields of a record hold the same value, the map-projection record under every designator, and the image descriptor under -F<n> / -B<n> file names.",
}

PENDING = {}


def main():
    props = [json.loads(l) for l in (VERIF / "properties.jsonl").read_text().splitlines() if l.strip()]
    checks = []
    na = []
    for p in props:
        pid = p["id"]
        if pid in CHECKS and (VERIF / "mc" / "checks" / f"{pid.lower()}.py").exists():
            cat, tech, text, note = CHECKS[pid]
            text = text + ADDED.get(pid, "")
            checks.append(
                {
                    "property_id": pid,
                    "quick_cmd": f"./run {pid} --tier quick",
                    "thorough_cmd": f"./run {pid} --tier thorough",
                    "evidence_file": f"/verif/evidence/{pid}.json",
                    "replay_cmd_template": f"./run {pid} --replay {{path}}",
                    "engine": "mc",
                    "level_claimed": {"category": cat, "text": text, "design_ref": f"DESIGN.md §4 {pid}"},
                    "level_note": note,
                    "technique": tech,
                }
            )
        else:
            na.append({"property_id": pid, "reason": PENDING.get(pid, "check not built yet in this session (model-checking design exists in DESIGN.md §4); not claimed until its check is committed")})
    manifest = {
        "version": 1,
        "setup_cmd": "/venv/bin/python -c 'import ceos_alos2, numpy, xarray, fsspec, construct' && chmod +x /verif/run",
        "hooks": {
            "guard": "CEOS_ALOS2_VERIF",
            "enable": "no source hooks are needed: /verif/run exports CEOS_ALOS2_VERIF=1 for uniformity, the library does not read it; all seams are public API, an fsspec protocol registered by the harness, XDG_CACHE_HOME and rebinding from outside",
            "baseline_off_cmd": "cd /repo && /venv/bin/python -m pytest -ra -q -p no:cacheprovider --timeout=900 --continue-on-collection-errors",
            "source_commits": [],
            "add_only": True,
        },
        "engines": [
            {
                "name": "mc",
                "path": "/verif/mc",
                "serves_properties": [c["property_id"] for c in checks],
                "kind_free_text": "hand-written explicit-state / deviation-bounded exhaustive explorer driving the real Python code (independent encoder + reference model, tracing filesystem, cooperative scheduler, crash-prefix enumerator)",
            }
        ],
        "checks": checks,
        "not_applicable": na,
        "notes": "All checks run /repo's working tree directly (editable install); see DESIGN.md.",
    }
    (VERIF / "MANIFEST.json").write_text(json.dumps(manifest, indent=1, ensure_ascii=False) + "\n")
    print(f"claimed {len(checks)}; not claimed {len(na)}")


if __name__ == "__main__":
    main()
