#!/bin/sh
# run checks against the pinned (pre-fix) commit to confirm that each 'fixed' finding is detected there
# usage: tools/on_pinned.sh C03 C12 ...
set -e
wt=$(mktemp -d /tmp/pinned-XXXX)
git -C /repo worktree add --detach "$wt" 70f8743 -q
trap 'git -C /repo worktree remove --force "$wt"' EXIT
for c in "$@"; do
  VERIF_REPO="$wt" VERIF_EVIDENCE_DIR="$wt/.evidence" VERIF_REPLAY_DIR="$wt/.replays" /verif/run "$c" 2>&1 | grep -E "signature classes|^ +[0-9]+ x|tier=|HARNESS" | cut -c1-260
done
